#!/venv/bin/python
"""Re-takes the verdicts of every kept seeded change with the current checks (test results are reused):
   seeded_recheck.py [--jobs 4] [tag-substring ...]
Each change is re-applied to a scratch worktree of /repo HEAD by tools/seeded_intake.py --reuse-tests; the
properties run are the change's own property plus those listed in EXTRA (changes that belong to another
property, as their authors noted)."""
import os, sys, json, subprocess, shutil, tempfile
from concurrent.futures import ThreadPoolExecutor

V = '/verif'
EXTRA = {'C03-D': ['C12'], 'C07-F': ['C15', 'C14']}


def one(tag):
    d = os.path.join(V, 'seeded', tag)
    meta = json.load(open(os.path.join(d, 'meta.json')))
    prop, t = tag.split('-')
    props = [prop] + EXTRA.get(tag, [])
    tmp = tempfile.mkdtemp(prefix='vf-recheck-')
    try:
        for f in os.listdir(d):
            shutil.copy(os.path.join(d, f), tmp)
        r = subprocess.run(['/venv/bin/python', os.path.join(V, 'tools', 'seeded_intake.py'), prop, t, os.path.join(tmp, 'patch.diff'),
                            os.path.join(tmp, 'demo.py'), '--props', ','.join(props), '--reuse-tests',
                            '--needs', meta.get('needs_to_manifest', '')], capture_output=True, text=True)
        for f in os.listdir(tmp):                      # keep side files (original patches of rebased changes)
            if not os.path.exists(os.path.join(d, f)):
                shutil.copy(os.path.join(tmp, f), d)
        lines = [l[:200] for l in r.stdout.splitlines() if l[:1] == 'C' and (' CAUGHT' in l[:12] or ' MISSED' in l[:12])]
        new = json.load(open(os.path.join(d, 'meta.json')))
        return tag, new.get('valid'), lines
    finally:
        shutil.rmtree(tmp, ignore_errors=True)


def main():
    args = [a for a in sys.argv[1:] if not a.startswith('--')]
    jobs = int(sys.argv[sys.argv.index('--jobs') + 1]) if '--jobs' in sys.argv else 4
    if '--jobs' in sys.argv:
        args = [a for a in args if a != str(jobs)]
    tags = sorted(t for t in os.listdir(os.path.join(V, 'seeded')) if not args or any(a in t for a in args))
    with ThreadPoolExecutor(jobs) as ex:
        for tag, valid, lines in ex.map(one, tags):
            own = [l for l in lines if l.startswith(tag.split('-')[0] + ' ')]
            caught_any = any(' CAUGHT' in l[:12] for l in lines)
            print('%-7s valid=%s own=%s any=%s | %s' % (tag, valid, 'CAUGHT' if any(' CAUGHT' in l[:12] for l in own) else 'MISSED',
                                                     'CAUGHT' if caught_any else 'MISSED', ' ; '.join(l[:60] for l in lines)))
            sys.stdout.flush()


if __name__ == '__main__':
    main()
