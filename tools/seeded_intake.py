#!/venv/bin/python
"""Intake of an independently written breaking change (from a sub-agent):
   seeded_intake.py <prop> <tag> <patch.diff> <demo.py> [--props C01,C02] [--skip-tests] [--needs "..."]
 1. applies the patch to a clean scratch worktree of /repo HEAD (outside /repo and /verif),
 2. confirms the demo PASSES on the clean tree and FAILS with the patch,
 3. runs the repository's stable test files on the patched tree,
 4. runs the quick tier of the given properties against the patched tree (--repo),
 5. stores /verif/seeded/<prop>-<tag>/{patch.diff, demo.py, meta.json}.
The scratch worktree is removed afterwards."""
import os, sys, json, subprocess, shutil, time, argparse

SCR = '/tmp/vf-seeded'
TESTS = ['tests/test_dwt.py', 'tests/test_dwt1d.py', 'tests/test_dtcwt.py', 'tests/test_scatnet_fwd.py']


def sh(cmd, timeout=None, env=None):
    return subprocess.run(cmd, shell=True, capture_output=True, text=True, timeout=timeout, env=env)


def main():
    ap = argparse.ArgumentParser()
    ap.add_argument('prop'); ap.add_argument('tag'); ap.add_argument('patch'); ap.add_argument('demo')
    ap.add_argument('--props', default=None)
    ap.add_argument('--skip-tests', action='store_true')
    ap.add_argument('--reuse-tests', action='store_true', help='keep the test result recorded by an earlier intake of the same patch')
    ap.add_argument('--needs', default='')
    ap.add_argument('--tier', default='quick')
    a = ap.parse_args()
    props = (a.props or a.prop).split(',')
    scr = SCR + '-' + a.prop + a.tag
    sh('git -C /repo worktree remove --force %s' % scr)
    sh('git -C /repo worktree add --detach %s HEAD' % scr)
    meta = {'property': a.prop, 'tag': a.tag, 'needs_to_manifest': a.needs, 'repo_head': sh('git -C /repo rev-parse HEAD').stdout.strip(),
            'ran': []}
    env = dict(os.environ, PYTHONPATH=scr, PYTHONDONTWRITEBYTECODE='1', OMP_NUM_THREADS='2', MKL_NUM_THREADS='2')
    try:
        r = sh('cd %s && /venv/bin/python -W ignore %s' % (scr, os.path.abspath(a.demo)), timeout=1200, env=env)
        meta['demo_on_clean_tree'] = {'exit': r.returncode, 'tail': (r.stdout + r.stderr)[-300:]}
        ap_ = sh('git -C %s apply %s' % (scr, os.path.abspath(a.patch)))
        meta['patch_applies'] = ap_.returncode == 0
        if ap_.returncode != 0:
            meta['patch_error'] = ap_.stderr[-300:]
        r = sh('cd %s && /venv/bin/python -W ignore %s' % (scr, os.path.abspath(a.demo)), timeout=1200, env=env)
        meta['demo_with_patch'] = {'exit': r.returncode, 'tail': (r.stdout + r.stderr)[-300:]}
        meta['files_touched'] = sh('git -C %s diff --stat' % scr).stdout.strip().splitlines()
        prev = '/verif/seeded/%s-%s/meta.json' % (a.prop, a.tag)
        if a.reuse_tests and os.path.exists(prev) and 'existing_tests_with_patch' in json.load(open(prev)):
            meta['existing_tests_with_patch'] = json.load(open(prev))['existing_tests_with_patch']
            if not a.needs:
                meta['needs_to_manifest'] = json.load(open(prev)).get('needs_to_manifest', '')
            a.skip_tests = False
        elif not a.skip_tests:
            t = time.time()
            jx = '/tmp/vf-seeded-junit-%s%s.xml' % (a.prop, a.tag)
            r = sh('cd %s && /venv/bin/python -m pytest -q -p no:cacheprovider -n 8 --timeout=1800 --junitxml=%s %s' % (
                scr, jx, ' '.join(TESTS)), timeout=5400, env=env)
            import xml.etree.ElementTree as ET
            passed = set()
            for tc in ET.parse(jx).getroot().iter('testcase'):
                if not any(c.tag in ('failure', 'error', 'skipped') for c in tc):
                    passed.add(tc.get('classname') + '::' + tc.get('name'))
            os.remove(jx)
            stable = set(json.load(open('/root/.vp/BASELINE.json'))['stable_pass'])
            missing = sorted(stable - passed)
            meta['existing_tests_with_patch'] = {'cmd': 'pytest -n 8 ' + ' '.join(TESTS), 'pytest_exit': r.returncode,
                                                 'exit': 0 if not missing else 1,
                                                 'baseline_stable_tests': len(stable), 'baseline_stable_tests_passing': len(stable & passed),
                                                 'baseline_stable_tests_failing': missing[:10],
                                                 'summary': r.stdout.strip().splitlines()[-1:], 'wall_s': round(time.time() - t)}
        for p in props:
            t = time.time()
            r = sh('cd /verif && /venv/bin/python -m vf.run %s --tier %s --repo %s' % (p, a.tier, scr), timeout=7200)
            first = [l.strip()[:300] for l in r.stdout.splitlines() if l.startswith('  monitor=')][:2]
            summ = [l for l in r.stdout.splitlines() if l.startswith(p + ' ')][:1]
            meta['ran'].append({'check': '%s %s' % (p, a.tier), 'exit': r.returncode,
                                'verdict': {0: 'MISSED', 1: 'CAUGHT', 2: 'INCONCLUSIVE'}.get(r.returncode, 'rc%d' % r.returncode),
                                'first_reports': first, 'summary': summ, 'wall_s': round(time.time() - t)})
            print(p, meta['ran'][-1]['verdict'], first[:1])
    finally:
        sh('git -C /repo worktree remove --force %s' % scr)
    out = '/verif/seeded/%s-%s' % (a.prop, a.tag)
    os.makedirs(out, exist_ok=True)
    shutil.copy(a.patch, os.path.join(out, 'patch.diff'))
    shutil.copy(a.demo, os.path.join(out, 'demo.py'))
    meta['valid'] = bool(meta.get('patch_applies') and meta['demo_on_clean_tree']['exit'] == 0 and meta['demo_with_patch']['exit'] != 0
                         and (('existing_tests_with_patch' not in meta) or meta['existing_tests_with_patch']['exit'] == 0))
    json.dump(meta, open(os.path.join(out, 'meta.json'), 'w'), indent=1)
    print(json.dumps({k: meta[k] for k in ('valid', 'patch_applies', 'demo_on_clean_tree', 'demo_with_patch') if k in meta})[:600])
    if 'existing_tests_with_patch' in meta:
        print('tests:', meta['existing_tests_with_patch'])


if __name__ == '__main__':
    main()
