#!/bin/bash
# usage: tools/run_all.sh quick|thorough [seed]   -- runs every registered check against /repo, validates evidence
cd /verif
tier=${1:-quick}; seed=${2:-0}
rc=0
for p in $(/venv/bin/python -c "import json; print(' '.join(c['property_id'] for c in json.load(open('MANIFEST.json'))['checks']))"); do
  s=$(date +%s)
  VERIF_SEED=$seed PYTHONHASHSEED=0 /venv/bin/python -m vf.run $p --tier $tier > .work/$p.$tier.$seed.out 2>&1; e=$?
  echo "$p exit=$e $(( $(date +%s)-s ))s $(grep -E "^$p $tier" .work/$p.$tier.$seed.out | cut -c1-170)"
  grep -E "^(VIOLATION|INCONCLUSIVE)" .work/$p.$tier.$seed.out | head -3
  [ $e -ne 0 ] && rc=1
done
python3-vt - <<'PY'
import json, jsonschema, glob
sch=json.load(open('/root/.vp/EVIDENCE.schema.json'))
for f in sorted(glob.glob('/verif/evidence/*.json')):
    try: jsonschema.validate(json.load(open(f)), sch)
    except Exception as e: print('INVALID', f, str(e)[:200])
print('evidence validated')
PY
exit $rc
