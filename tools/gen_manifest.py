#!/venv/bin/python
"""Regenerates /verif/MANIFEST.json from the table below (one row per claimed property)."""
import json, os

V = os.path.dirname(os.path.dirname(os.path.abspath(__file__)))
PY = '/venv/bin/python'

CHECKS = {
    'C01': ('differential runtime monitor vs pywt.wavedec/wavedec2 on impulse batches + taint-certified linearity',
            'Every observed DWT1DForward/DWTForward call is compared with PyWavelets on the same array '
            '(shapes exact, values 1e-11 relative) over all 106 wavelets x 5 modes x hostile sizes; impulse '
            'batches give the whole operator per cell and the ATen-level taint monitor certifies the executed '
            'op stream linear with input-independent control flow, so agreement on the basis extends to all '
            'inputs of that cell. Also driven: the 4-tuple form with distinct column/row wavelets, the short mode spelling, '
            'channel counts up to 5, signals longer than 2^14 samples, and use / in-place filter reload / use histories. '
            'Sizes and J are bounded: exploration, not proof.', '5/C01 and 10.5'),
    'C02': ('round-trip runtime monitor (inverse fed the observed forward output) on impulse batches and dense inputs',
            'inverse(forward(x)) is compared with the recorded x on the original extent for all wavelets, '
            'modes, J and hostile sizes; tolerance tied to PyWavelets own round-trip error for '
            'approximately-PR wavelets. Impulse batches give S*A=I on the signal extent per cell.', '5/C02'),
    'C03': ('differential runtime monitor vs the NumPy dtcwt forward on impulse batches + taint-certified linearity',
            'Every observed DTCWTForward call (20 filter pairs, J<=5, odd / non-multiple-of-4 / tiny / non-square '
            'sizes) is compared per slice with dtcwt.Transform2d.forward: pyramid shapes exactly, lowpass and six '
            'complex subbands per level to 1e-11 relative; impulse batches + the dispatch-level linearity '
            'certificate generalise per cell.', '5/C03'),
    'C04': ('round-trip runtime monitor DTCWTInverse(DTCWTForward(x)) on impulse batches and dense inputs',
            'The inverse is fed the observed forward output; result shape (H+H%2, W+W%2) and the top-left HxW '
            'corner equal to the recorded input, for 20 filter pairs, J<=5, hostile sizes.', '5/C04'),
    'C11': ('differential runtime monitor vs the NumPy dtcwt inverse on arbitrary pyramids; absent-entry metamorphic monitor',
            'DTCWTInverse on dense and one-hot (plus dense background: reference quirk, see DESIGN) pyramids shaped '
            'by the reference forward is compared with dtcwt.Transform2d.inverse; every absent subset of '
            '{lowpass, levels} in three encodings is compared with explicit zeros. Two mechanisms are open known '
            'findings keyed by shape predicates (two more, the empty-tensor marker and the missing lowpass, were '
            'repaired in the repository and are reported as violations if they return).', '5/C11'),
    'C12': ('metamorphic runtime monitors: layout permutation, same-layout round trip, skip/include masks, prefix consistency',
            'All 120 (o_dim, ri_dim) pairs in -6..5 (every run), skip/include masks (all for J<=3 in thorough) and '
            'prefix consistency are checked against the default-layout transform observed in the same run at a '
            'rounding-level bound (bit identity counted); the inverse with the same layout must reconstruct.', '5/C12'),
    'C18': ('icontract postconditions on the table loaders (every observed load) + cache monitor; exhaustive over tables x loaders x cache state x threads',
            'Contracts on biort/level1/qshift judge every load observed (direct, via module construction, from '
            '1..8 threads, cold and warm cache): bit equality with the reference package, symmetry / PR / '
            'orthonormality / reversal identities, equality with the bytes on disk, idempotence, read-only '
            'cached arrays. The finite table space is enumerated completely.', '5/C18'),
    'C05': ('adjoint runtime monitor: autograd Jacobian from one batched backward vs operator extracted from forward impulse executions; Function-level VJP monitor on every backward invocation; all requires-grad patterns',
            'The operator of each DWT module configuration is extracted from forward executions on impulses (no code '
            'shared with the backward); the full Jacobian from one batched backward execution at two points and every '
            '2^(J+1)-1 requires-grad pattern of the inverse are compared with it; every AFB*/SFB*.backward invocation is '
            'compared with the native VJP of the Function forward body. Two mechanisms (both asserted by the repository own '
            'gradient tests, so not repairable there) are open known findings with '
            'localisation checks that still report other backward defects in those modes. Also driven: cotangents of '
            'magnitude 1e-10, a second pull-back through one recorded graph, odd-length custom filter banks, reload '
            'histories, and (thorough) the repository tests under the Function-level monitor.', '5/C05 and 10.5'),
    'C06': ('adjoint runtime monitor for the DTCWT: Jacobian from one batched backward vs operator from impulse executions over layouts/masks/subsets; Function-level adjoint-identity monitor',
            'As C05 for DTCWTForward/DTCWTInverse over the 20 filter pairs, all 120 (o_dim,ri_dim) layouts, skip and '
            'include_scale masks (cotangents fed into every returned lowpass) and every requires-grad pattern; every '
            'FWD_J*/INV_J*.backward invocation is checked with the adjoint identity <Lx,g>=<x,backward(g)> using the '
            'Function forward body without autograd.', '5/C06'),
    'C07': ('ATen dispatch-level taint/linearity monitor on the real op stream + superposition, T(0), batched-vs-per-slice and leak monitors',
            'For DWT 1-D/2-D forward+inverse, SWT and DTCWT forward+inverse: dynamic taint tracking certifies every '
            'operator consuming input data linear and the control flow input-independent (a refuted certificate is a '
            'violation); superposition with random scalars, bit-zero T(0), slice-by-slice equality for N in {1,2,3,5}, '
            'C in {1,2,3,4,7}, a leak test with re-randomised neighbours, homogeneity with the scalars 1e-12 and 1e12, '
            'block superposition with exactly-zero arguments and batches whose slices differ by 1e18 in scale.', '5/C07 and 10.5'),
    'C15': ('history recording at the client boundary checked offline against a stateless reference table built in fresh processes; attached M-ARG/M-INV/M-CACHE/M-DISP.write monitors; 1..16 threads with sys.monitoring yield and fault injection',
            'Every call of seeded multi-threaded histories over a near-colliding pool of configurations (threads share '
            'module instances; pre-emption injected at library source lines; exceptions injected in dedicated '
            'histories) must return bit-for-bit what the same call returns in its own fresh process; all arguments, '
            'buffers, plain module attributes and cached tables must be unchanged across every call and no mutating ATen op '
            'may write into them. One module instance serves several input shapes; hot histories and barrier-started '
            'contention bursts put threads into the same instance with equal shapes and different data.', '5/C15 and 10.5'),
    'C16': ('dtype postcondition + ATen precision monitor on every call, f32-vs-f64 differential with gain-scaled bound, converted-module and strided-view metamorphic monitors',
            'All transforms incl. inverses, SWT and scattering: outputs keep the input dtype, no ATen op inside a call '
            'produces a narrower float, float32 results within 64*eps32*(gain*max|x|+bias) of float64, .float()/.double() '
            'modules behave like natively built ones, six classes of non-contiguous inputs equal their contiguous copies, '
            'None levels work in both precisions.', '5/C16'),
    'C08': ('differential runtime monitor vs NumPy dtcwt + defining formulas (independent reference model), shape and non-negativity postconditions',
            'ScatLayer/ScatLayerj2 outputs for 5 filter families (band-pass included), 6 bias values incl. 0, colour '
            'on/off, sizes 2..34 incl. odd / non-multiple-of-8, 8 input classes are compared with the composition of '
            'the reference DTCWT and the scattering formulas; documented shapes and non-negative magnitudes checked.', '5/C08'),
    'C09': ('gradient runtime monitor: back-propagated x.grad vs native autograd of the forward body and vs central finite differences; finiteness; SmoothMagFn analytic gradient for all grad subsets',
            'x.grad after Z.backward(g) is compared with torch native autograd of the layer forward body (no '
            'hand-written backward) and, for bias >= 1e-2, with float64 central differences along random directions; '
            'all gradients must be finite for bias>0 including the all-zero image; SmoothMagFn is checked against '
            'x/r, y/r for every requires-grad subset.', '5/C09'),
    'C17': ('operator-algebra runtime monitor on operators extracted from impulse executions (A^T A, A A^T, S-A^T), energy, backward==inverse',
            'For all 75 orthogonal wavelets, periodization, J<=3, every level even and >= the filter length: the '
            'extracted analysis operator is orthogonal, the extracted synthesis operator is its transpose, energy and '
            'inner products are preserved on dense inputs and back-propagation equals the inverse transform; '
            'tolerance scaled by the orthonormality defect of the pywt taps.', '5/C17'),
    'C10': ('differential runtime monitor vs pywt.waverec/waverec2 on one-hot coefficient batches, None-level metamorphic check',
            'Every observed DWT1DInverse/DWTInverse call on arbitrary (not in range) pyramids is compared with '
            'PyWavelets; one-hot coefficient batches give the whole synthesis operator; None levels are '
            'compared with pywt given the same None and with explicit zeros on the signal extent.', '5/C10'),
    'C13': ('differential runtime monitor vs pywt.swt2 + circular-shift metamorphic monitor',
            'SWTForward outputs (list of J (N,C,4,H,W) tensors) are compared with pywt.swt2 for all wavelets, '
            'J<=3, the default/periodization/periodic modes; every circular shift of small images is executed '
            'and must shift every band identically.', '5/C13'),
    'C14': ('differential runtime monitor vs pywt per-axis wavelets and the functional afb2d/sfb2d',
            'DWTForward/DWTInverse with 4-tuples of two wavelets of different length on non-square images '
            '(an axis mix-up changes shapes) compared with pywt (wavelet per axis) and with the functional '
            'bank; 2-tuple and name forms checked to use one wavelet on both axes.', '5/C14'),
    'C19': ('differential runtime monitor between afb2d_nonsep/sfb2d_nonsep and afb2d/sfb2d, anchored to pywt.dwt2/idwt2',
            'Both real implementations are executed on the same arguments (impulse batches, dense inputs, '
            '2- and 4-filter forms, 4 modes, sizes smaller than the filters included); one raising where the '
            'other returns is a violation; the separable result is anchored to pywt in the same run.', '5/C19'),
}

NOT_APPLICABLE = []


def main():
    checks = []
    for pid in sorted(CHECKS):
        tech, text, ref = CHECKS[pid]
        checks.append({
            'property_id': pid,
            'quick_cmd': '%s -m vf.run %s --tier quick' % (PY, pid),
            'thorough_cmd': '%s -m vf.run %s --tier thorough' % (PY, pid),
            'evidence_file': '/verif/evidence/%s.json' % pid,
            'replay_cmd_template': '%s -m vf.run replay {path}' % PY,
            'engine': 'vf',
            'level_claimed': {'category': 'exploration', 'text': text, 'design_ref': 'DESIGN.md section ' + ref},
            'level_note': 'Trusted base: torch 2.14 kernels, PyWavelets 1.10 / dtcwt 0.14 as references, '
                          'the monitors in /verif/vf. Holds on the executions observed (counts in the '
                          'evidence file); sizes, J and schedules are bounded/sampled.',
            'technique': tech,
        })
    allp = [json.loads(l)['id'] for l in open(os.path.join(V, 'properties.jsonl'))]
    na = list(NOT_APPLICABLE)
    for p in allp:
        if p not in CHECKS and p not in [n['property_id'] for n in na]:
            raise SystemExit('property %s neither claimed nor listed as not applicable' % p)
    m = {
        'version': 1,
        'setup_cmd': '%s -c "import sys; sys.path.insert(0, \'/verif\'); from vf import core; core.ensure_deps()"' % PY,
        'hooks': {
            'guard': 'PYTORCH_WAVELETS_VERIF',
            'enable': 'no source hooks: monitors are attached from /verif/vf/attach.py by attribute assignment when '
                      'PYTORCH_WAVELETS_VERIF=1 (set by vf.run); /repo is a develop install, Python recompiles '
                      'changed sources, there is no build step',
            'baseline_off_cmd': 'cd /repo && env -u PYTORCH_WAVELETS_VERIF /venv/bin/python -m pytest -ra -q '
                                '-p no:cacheprovider --timeout=900 --continue-on-collection-errors',
            'source_commits': [],
            'add_only': True,
        },
        'engines': [{'name': 'vf', 'path': '/verif/vf', 'serves_properties': sorted(CHECKS),
                     'kind_free_text': 'runtime monitors (differential postconditions, ATen dispatch monitor, '
                                       'history checker) driven by seeded hostile workloads in sharded '
                                       'subprocesses'}],
        'checks': checks,
        'not_applicable': na,
        'notes': 'Exit 0 = held on everything explored (KNOWN-FINDING lines for listed findings); exit 1 + '
                 'VIOLATION line; exit 2 + INCONCLUSIVE line when the deciding monitors observed too little. '
                 'Known findings: /verif/known_findings.txt.',
    }
    with open(os.path.join(V, 'MANIFEST.json'), 'w') as f:
        json.dump(m, f, indent=1)
    print('wrote MANIFEST.json with %d checks, %d not_applicable' % (len(checks), len(na)))


if __name__ == '__main__':
    main()
