#!/venv/bin/python
"""Regenerates /verif/MANIFEST.json from the table below (one row per claimed property)."""
import json, os

V = os.path.dirname(os.path.dirname(os.path.abspath(__file__)))
PY = '/venv/bin/python'

CHECKS = {
    'C01': ('differential runtime monitor vs pywt.wavedec/wavedec2 on impulse batches + taint-certified linearity',
            'Every observed DWT1DForward/DWTForward call is compared with PyWavelets on the same array '
            '(shapes exact, values 1e-11 relative) over all 106 wavelets x 5 modes x hostile sizes; impulse '
            'batches give the whole operator per cell and the ATen-level taint monitor certifies the executed '
            'op stream linear with input-independent control flow, so agreement on the basis extends to all '
            'inputs of that cell. Sizes and J are bounded: exploration, not proof.', '5/C01'),
    'C02': ('round-trip runtime monitor (inverse fed the observed forward output) on impulse batches and dense inputs',
            'inverse(forward(x)) is compared with the recorded x on the original extent for all wavelets, '
            'modes, J and hostile sizes; tolerance tied to PyWavelets own round-trip error for '
            'approximately-PR wavelets. Impulse batches give S*A=I on the signal extent per cell.', '5/C02'),
    'C03': ('differential runtime monitor vs the NumPy dtcwt forward on impulse batches + taint-certified linearity',
            'Every observed DTCWTForward call (20 filter pairs, J<=5, odd / non-multiple-of-4 / tiny / non-square '
            'sizes) is compared per slice with dtcwt.Transform2d.forward: pyramid shapes exactly, lowpass and six '
            'complex subbands per level to 1e-11 relative; impulse batches + the dispatch-level linearity '
            'certificate generalise per cell.', '5/C03'),
    'C04': ('round-trip runtime monitor DTCWTInverse(DTCWTForward(x)) on impulse batches and dense inputs',
            'The inverse is fed the observed forward output; result shape (H+H%2, W+W%2) and the top-left HxW '
            'corner equal to the recorded input, for 20 filter pairs, J<=5, hostile sizes.', '5/C04'),
    'C11': ('differential runtime monitor vs the NumPy dtcwt inverse on arbitrary pyramids; absent-entry metamorphic monitor',
            'DTCWTInverse on dense and one-hot (plus dense background: reference quirk, see DESIGN) pyramids shaped '
            'by the reference forward is compared with dtcwt.Transform2d.inverse; every absent subset of '
            '{lowpass, levels} in three encodings is compared with explicit zeros. Three mechanisms are open '
            'known findings keyed by shape/encoding predicates.', '5/C11'),
    'C12': ('metamorphic runtime monitors: layout permutation, same-layout round trip, skip/include masks, prefix consistency',
            'All 120 (o_dim, ri_dim) pairs in -6..5 (every run), skip/include masks (all for J<=3 in thorough) and '
            'prefix consistency are checked against the default-layout transform observed in the same run at a '
            'rounding-level bound (bit identity counted); the inverse with the same layout must reconstruct.', '5/C12'),
    'C18': ('icontract postconditions on the table loaders (every observed load) + cache monitor; exhaustive over tables x loaders x cache state x threads',
            'Contracts on biort/level1/qshift judge every load observed (direct, via module construction, from '
            '1..8 threads, cold and warm cache): bit equality with the reference package, symmetry / PR / '
            'orthonormality / reversal identities, equality with the bytes on disk, idempotence, read-only '
            'cached arrays. The finite table space is enumerated completely.', '5/C18'),
    'C10': ('differential runtime monitor vs pywt.waverec/waverec2 on one-hot coefficient batches, None-level metamorphic check',
            'Every observed DWT1DInverse/DWTInverse call on arbitrary (not in range) pyramids is compared with '
            'PyWavelets; one-hot coefficient batches give the whole synthesis operator; None levels are '
            'compared with pywt given the same None and with explicit zeros on the signal extent.', '5/C10'),
    'C13': ('differential runtime monitor vs pywt.swt2 + circular-shift metamorphic monitor',
            'SWTForward outputs (list of J (N,C,4,H,W) tensors) are compared with pywt.swt2 for all wavelets, '
            'J<=3, the default/periodization/periodic modes; every circular shift of small images is executed '
            'and must shift every band identically.', '5/C13'),
    'C14': ('differential runtime monitor vs pywt per-axis wavelets and the functional afb2d/sfb2d',
            'DWTForward/DWTInverse with 4-tuples of two wavelets of different length on non-square images '
            '(an axis mix-up changes shapes) compared with pywt (wavelet per axis) and with the functional '
            'bank; 2-tuple and name forms checked to use one wavelet on both axes.', '5/C14'),
    'C19': ('differential runtime monitor between afb2d_nonsep/sfb2d_nonsep and afb2d/sfb2d, anchored to pywt.dwt2/idwt2',
            'Both real implementations are executed on the same arguments (impulse batches, dense inputs, '
            '2- and 4-filter forms, 4 modes, sizes smaller than the filters included); one raising where the '
            'other returns is a violation; the separable result is anchored to pywt in the same run.', '5/C19'),
}

NOT_APPLICABLE = []


def main():
    checks = []
    for pid in sorted(CHECKS):
        tech, text, ref = CHECKS[pid]
        checks.append({
            'property_id': pid,
            'quick_cmd': '%s -m vf.run %s --tier quick' % (PY, pid),
            'thorough_cmd': '%s -m vf.run %s --tier thorough' % (PY, pid),
            'evidence_file': '/verif/evidence/%s.json' % pid,
            'replay_cmd_template': '%s -m vf.run replay {path}' % PY,
            'engine': 'vf',
            'level_claimed': {'category': 'exploration', 'text': text, 'design_ref': 'DESIGN.md section ' + ref},
            'level_note': 'Trusted base: torch 2.14 kernels, PyWavelets 1.10 / dtcwt 0.14 as references, '
                          'the monitors in /verif/vf. Holds on the executions observed (counts in the '
                          'evidence file); sizes, J and schedules are bounded/sampled.',
            'technique': tech,
        })
    allp = [json.loads(l)['id'] for l in open(os.path.join(V, 'properties.jsonl'))]
    na = list(NOT_APPLICABLE)
    for p in allp:
        if p not in CHECKS and p not in [n['property_id'] for n in na]:
            na.append({'property_id': p, 'reason': 'check under construction in this session (not a technique limitation); see DESIGN.md section 5'})
    m = {
        'version': 1,
        'setup_cmd': '%s -c "import sys; sys.path.insert(0, \'/verif\'); from vf import core; core.ensure_deps()"' % PY,
        'hooks': {
            'guard': 'PYTORCH_WAVELETS_VERIF',
            'enable': 'no source hooks: monitors are attached from /verif/vf/attach.py by attribute assignment when '
                      'PYTORCH_WAVELETS_VERIF=1 (set by vf.run); /repo is a develop install, Python recompiles '
                      'changed sources, there is no build step',
            'baseline_off_cmd': 'cd /repo && env -u PYTORCH_WAVELETS_VERIF /venv/bin/python -m pytest -ra -q '
                                '-p no:cacheprovider --timeout=900 --continue-on-collection-errors',
            'source_commits': [],
            'add_only': True,
        },
        'engines': [{'name': 'vf', 'path': '/verif/vf', 'serves_properties': sorted(CHECKS),
                     'kind_free_text': 'runtime monitors (differential postconditions, ATen dispatch monitor, '
                                       'history checker) driven by seeded hostile workloads in sharded '
                                       'subprocesses'}],
        'checks': checks,
        'not_applicable': na,
        'notes': 'Exit 0 = held on everything explored (KNOWN-FINDING lines for listed findings); exit 1 + '
                 'VIOLATION line; exit 2 + INCONCLUSIVE line when the deciding monitors observed too little. '
                 'Known findings: /verif/known_findings.txt.',
    }
    with open(os.path.join(V, 'MANIFEST.json'), 'w') as f:
        json.dump(m, f, indent=1)
    print('wrote MANIFEST.json with %d checks, %d not_applicable' % (len(checks), len(na)))


if __name__ == '__main__':
    main()
