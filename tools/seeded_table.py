#!/venv/bin/python
"""Prints a markdown table of /verif/seeded/*/meta.json (which checks catch which seeded change)."""
import json, glob, os

rows = []
for f in sorted(glob.glob('/verif/seeded/*/meta.json')):
    m = json.load(open(f))
    name = os.path.basename(os.path.dirname(f))
    t = m.get('existing_tests_with_patch', {})
    tests = '%s/%s stable pass' % (t.get('baseline_stable_tests_passing', '?'), t.get('baseline_stable_tests', '?')) if t else 'not run'
    verd = ', '.join('%s: %s' % (r['check'].split()[0], r['verdict']) for r in m.get('ran', []))
    rows.append('| %s | %s | %s | demo clean=%s patched=%s | %s | %s |' % (
        name, m.get('needs_to_manifest', '').replace('|', '/')[:230], ' '.join(x.split('|')[0].strip() for x in m.get('files_touched', [])[:-1])[:80],
        m['demo_on_clean_tree']['exit'], m['demo_with_patch']['exit'], tests, verd))
print('| change | needs, in order to manifest | files | demonstration | existing tests | quick tier verdicts |')
print('|---|---|---|---|---|---|')
print('\n'.join(rows))
