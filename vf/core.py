"""Core infrastructure: repo resolution, deps, sharded workers, verdicts, evidence.

Everything here runs under /venv/bin/python (the repository's interpreter).
"""
import os, sys, json, time, hashlib, subprocess, fcntl, traceback, random

VERIF = os.path.dirname(os.path.dirname(os.path.abspath(__file__)))
DEPS = os.path.join(VERIF, '.deps')
WORK = os.path.join(VERIF, '.work')
WHEELS = '/opt/veriftools/wheels'
GUARD = 'PYTORCH_WAVELETS_VERIF'


# ----------------------------------------------------------------------------------------------
# environment

def ensure_deps():
    """Install icontract beside the repo's interpreter (git-ignored .deps) if missing."""
    marker = os.path.join(DEPS, 'icontract', '__init__.py')
    if not os.path.exists(marker):
        os.makedirs(WORK, exist_ok=True)
        with open(os.path.join(WORK, 'deps.lock'), 'w') as lk:
            fcntl.flock(lk, fcntl.LOCK_EX)
            if not os.path.exists(marker):
                subprocess.run([sys.executable, '-m', 'pip', 'install', '--quiet', '--no-index',
                                '--find-links', WHEELS, '--target', DEPS, 'icontract'],
                               check=True, stdout=subprocess.DEVNULL, stderr=subprocess.DEVNULL)
    if DEPS not in sys.path:
        sys.path.insert(1, DEPS)


def repo_path():
    return os.path.abspath(os.environ.get('VERIF_REPO', '/repo'))


def setup_repo_import():
    """Put the repository first on sys.path and check the import really comes from it."""
    rp = repo_path()
    if sys.path[0] != rp:
        sys.path.insert(0, rp)
    os.environ[GUARD] = '1'
    import warnings
    warnings.filterwarnings('ignore')
    import pytorch_wavelets
    got = os.path.abspath(os.path.dirname(os.path.dirname(pytorch_wavelets.__file__)))
    if got != rp:
        raise RuntimeError('pytorch_wavelets imported from %s, wanted %s' % (got, rp))
    return rp


def repo_state():
    rp = repo_path()
    def git(*a):
        try:
            return subprocess.run(['git', '-C', rp] + list(a), capture_output=True, text=True,
                                  timeout=30).stdout
        except Exception:
            return ''
    head = git('rev-parse', 'HEAD').strip()
    diff = git('diff', 'HEAD', '--', 'pytorch_wavelets')
    return {'repo': rp, 'head': head,
            'worktree_diff_sha1': hashlib.sha1(diff.encode()).hexdigest() if diff else None}


def private_workdir(prop):
    """scratch directory private to this invocation (concurrent runs of the same check against
    different trees must not share files); directories older than 6 hours are swept"""
    import shutil
    base = os.path.join(WORK, prop)
    os.makedirs(base, exist_ok=True)
    now = time.time()
    for d in os.listdir(base):
        p = os.path.join(base, d)
        try:
            if now - os.path.getmtime(p) > 6 * 3600:
                shutil.rmtree(p) if os.path.isdir(p) else os.remove(p)
        except OSError:
            pass
    out = os.path.join(base, 'run-%d-%d' % (os.getpid(), int(now)))
    os.makedirs(out, exist_ok=True)
    return out


def seed_from_env(default=0):
    try:
        return int(os.environ.get('VERIF_SEED', default))
    except ValueError:
        return default


def rng_for(seed, *salt):
    h = hashlib.sha256(('%d|' % seed + '|'.join(str(s) for s in salt)).encode()).digest()
    return random.Random(int.from_bytes(h[:8], 'big'))


# ----------------------------------------------------------------------------------------------
# results

HELD, VIOLATED, KNOWN, INCONCLUSIVE, SKIPPED = 'held', 'violated', 'known', 'inconclusive', 'skipped'


PARTIAL = None      # when a list: every result created is also remembered here (see run.worker)


def res(status, case, monitor, detail=None, **extra):
    """One oracle evaluation.  `case` is a JSON-able description (the replay recipe)."""
    r = {'status': status, 'case': case, 'monitor': monitor}
    if detail is not None:
        r['detail'] = detail
    r.update(extra)
    if PARTIAL is not None:
        PARTIAL.append(r)
    return r


def case_key(case):
    return hashlib.sha1(json.dumps(case, sort_keys=True, default=str).encode()).hexdigest()[:16]


# ----------------------------------------------------------------------------------------------
# known findings (read-only at run time)

def load_known_findings():
    """-> (open: {(prop, key): text}, fixed: [(prop, commit, text)])"""
    path = os.path.join(VERIF, 'known_findings.txt')
    open_, fixed = {}, []
    if not os.path.exists(path):
        return open_, fixed
    for line in open(path):
        line = line.strip()
        if not line or line.startswith('#'):
            continue
        if line.startswith('open:'):
            parts = line[5:].split()
            kv = dict(p.split('=', 1) for p in parts[:2])
            open_[(kv['property'], kv['key'])] = ' '.join(parts[2:])
        elif line.startswith('fixed:'):
            parts = line[6:].split()
            kv = dict(p.split('=', 1) for p in parts[:1])
            fixed.append((kv['property'], parts[1], ' '.join(parts[2:])))
    return open_, fixed


# ----------------------------------------------------------------------------------------------
# sharded execution

def run_sharded(prop, tier, seed, ncells, timeout_s, nshards=None, extra_env=None):
    """Run `python -m vf.run --worker prop tier seed i n` for i in range(n), 16 at a time.
    Each worker writes WORK/<prop>/<tier>-<i>.json.  Returns (results, worker_meta)."""
    nshards = nshards or min(16, max(1, ncells))
    outdir = private_workdir(prop)
    env = dict(os.environ)
    env['VERIF_SEED'] = str(seed)
    env['VERIF_REPO'] = repo_path()
    env[GUARD] = '1'
    env.setdefault('PYTHONHASHSEED', '0')
    env['OMP_NUM_THREADS'] = '1'
    env['MKL_NUM_THREADS'] = '1'
    env['PYTHONPATH'] = repo_path() + os.pathsep + VERIF + os.pathsep + env.get('PYTHONPATH', '')
    if extra_env:
        env.update(extra_env)
    procs = []
    for i in range(nshards):
        out = os.path.join(outdir, '%s-%d.json' % (tier, i))
        if os.path.exists(out):
            os.remove(out)
        log = open(os.path.join(outdir, '%s-%d.log' % (tier, i)), 'w')
        p = subprocess.Popen([sys.executable, '-m', 'vf.run', '--worker', prop, tier, str(seed),
                              str(i), str(nshards), out], cwd=VERIF, env=env, stdout=log,
                             stderr=subprocess.STDOUT)
        procs.append((i, p, out, log))
    results, meta = [], []
    deadline = time.time() + timeout_s
    for i, p, out, log in procs:
        try:
            p.wait(timeout=max(1.0, deadline - time.time()))
            state = 'exit %d' % p.returncode
        except subprocess.TimeoutExpired:
            p.kill()
            p.wait()
            state = 'timeout'
        log.close()
        m = {'shard': i, 'state': state}
        if os.path.exists(out):
            try:
                d = json.load(open(out))
                results.extend(d['results'])
                m.update(d.get('meta', {}))
                if not d.get('complete'):
                    m['state'] = state + ' (partial)'
            except Exception as e:
                m['state'] = state + ' (unreadable: %r)' % (e,)
        else:
            m['state'] = state + ' (no output)'
        if not m['state'].startswith('exit 0') or 'partial' in m['state']:
            results.append(res(INCONCLUSIVE, {'shard': i}, 'worker', m['state']))
        meta.append(m)
    return results, meta


class ShardWriter:
    """Incrementally dumps a worker's results so a timeout still leaves partial output."""
    def __init__(self, path):
        self.path, self.results, self.meta, self.t_last = path, [], {}, 0

    def add(self, rs):
        self.results.extend(rs)
        if time.time() - self.t_last > 20:
            self.flush(False)

    def flush(self, complete):
        self.t_last = time.time()
        tmp = self.path + '.tmp'
        with open(tmp, 'w') as f:
            json.dump({'results': self.results, 'meta': self.meta, 'complete': complete}, f,
                      default=str)
        os.replace(tmp, self.path)


# ----------------------------------------------------------------------------------------------
# finishing a check: classify, print, write evidence and replays, pick exit status

def finish(prop, tier, seed, results, t0, rule, level_note_assumptions, min_held,
           extra_cov=None, exhaustive=False, nontrivial=None):
    open_kf, fixed_kf = load_known_findings()
    counts = {HELD: 0, VIOLATED: 0, KNOWN: 0, INCONCLUSIVE: 0, SKIPPED: 0}
    by_monitor = {}
    viol, known_keys, incon = [], {}, []
    distinct = set()
    for r in results:
        st = r['status']
        if st == VIOLATED and r.get('kf_key') and (prop, r['kf_key']) in open_kf:
            st = r['status'] = KNOWN
        counts[st] += 1
        m = by_monitor.setdefault(r['monitor'], {HELD: 0, VIOLATED: 0, KNOWN: 0, INCONCLUSIVE: 0,
                                                 SKIPPED: 0, 'max_ratio': 0.0})
        m[st] += 1
        if isinstance(r.get('ratio'), (int, float)) and st == HELD:
            m['max_ratio'] = max(m['max_ratio'], float(r['ratio']))
        if st == VIOLATED:
            viol.append(r)
        elif st == KNOWN:
            known_keys.setdefault(r['kf_key'], []).append(r)
        elif st == INCONCLUSIVE:
            incon.append(r)
        if st in (HELD, KNOWN) and (nontrivial is None or nontrivial(r)):
            distinct.add(case_key(r['case']))
    # replays
    rdir = os.path.join(VERIF, 'replay' if repo_path() == '/repo' else os.path.join('.work', 'replay-other-trees'), prop)
    lines = []
    for key, rs in sorted(known_keys.items()):
        lines.append('KNOWN-FINDING: property=%s %s: %s (%d cases this run, e.g. %s)' % (
            prop, key, open_kf[(prop, key)], len(rs),
            json.dumps(rs[0]['case'], sort_keys=True, default=str)[:200]))
    seen_v = set()
    for r in viol:
        k = case_key({'c': r['case'], 'm': r['monitor']})
        if k in seen_v:
            continue
        seen_v.add(k)
        if len(seen_v) <= 40:
            os.makedirs(rdir, exist_ok=True)
            path = os.path.join(rdir, k + '.json')
            with open(path, 'w') as f:
                json.dump({'property': prop, 'tier': tier, 'seed': seed, 'result': r}, f, indent=1,
                          default=str)
            lines.append('VIOLATION property=%s replay=%s' % (prop, path))
            lines.append('  monitor=%s detail=%s case=%s' % (
                r['monitor'], str(r.get('detail'))[:300],
                json.dumps(r['case'], sort_keys=True, default=str)[:300]))
    reasons = {}
    for r in incon:
        reasons.setdefault(str(r.get('detail'))[:80], 0)
        reasons[str(r.get('detail'))[:80]] += 1
    for k, v in sorted(reasons.items(), key=lambda kv: -kv[1])[:8]:
        lines.append('inconclusive x%d: %s' % (v, k))
    wall = time.time() - t0
    held_samples = [r for r in results if r['status'] == HELD]
    rnd = rng_for(seed, prop, 'samples')
    samples = [{'case': r['case'], 'monitor': r['monitor'], 'ratio': r.get('ratio'),
                'detail': r.get('detail')} for r in rnd.sample(held_samples, min(6, len(held_samples)))]
    samples += [{'case': r['case'], 'monitor': r['monitor'], 'status': r['status'],
                 'detail': str(r.get('detail'))[:300]} for r in (viol[:3] + sum(known_keys.values(), [])[:3])]
    cov = {
        'evaluations': len(results) - counts[SKIPPED],
        'distinct_nontrivial': len(distinct),
        'rule': rule,
        'samples': samples or [{'note': 'no case evaluated'}],
        'exhaustive': bool(exhaustive),
        'status_counts': counts,
        'monitors': by_monitor,
        'known_findings_observed': {k: len(v) for k, v in known_keys.items()},
        'inconclusive_reasons': reasons,
        'repo': repo_state(),
    }
    if extra_cov:
        cov.update(extra_cov)
    ev = {'property_id': prop, 'tier': tier, 'seed': seed, 'level': 'exploration', 'coverage': cov,
          'assumptions': level_note_assumptions, 'wall_s': round(wall, 2),
          'violations': counts[VIOLATED]}
    # evidence under /verif/evidence only ever describes /repo itself; runs against a scratch tree
    # (mutation testing, negative controls) write theirs elsewhere
    evdir = os.path.join(VERIF, 'evidence') if repo_path() == '/repo' else os.path.join(WORK, 'evidence-other-trees')
    os.makedirs(evdir, exist_ok=True)
    with open(os.path.join(evdir, prop + '.json'), 'w') as f:
        json.dump(ev, f, indent=1, default=str)
    for l in lines:
        print(l)
    print('%s %s seed=%d: evaluations=%d held=%d known=%d inconclusive=%d out-of-scope=%d violated=%d distinct=%d wall=%.1fs' % (
        prop, tier, seed, len(results), counts[HELD], counts[KNOWN], counts[INCONCLUSIVE], counts[SKIPPED],
        counts[VIOLATED], len(distinct), wall))
    for mname, m in sorted(by_monitor.items()):
        print('  monitor %-28s held=%-6d known=%-5d inconclusive=%-4d violated=%-4d max_residual/tol=%.3g' % (
            mname, m[HELD], m[KNOWN], m[INCONCLUSIVE], m[VIOLATED], m['max_ratio']))
    if counts[VIOLATED]:
        return 1
    if counts[HELD] + counts[KNOWN] < min_held:
        print('INCONCLUSIVE property=%s reason=deciding monitors observed %d evaluations, minimum %d' % (
            prop, counts[HELD] + counts[KNOWN], min_held))
        return 2
    return 0
