"""ATen-level dispatch monitor: the sanitizer analogue for a tensor program.

A TorchDispatchMode that observes every ATen operator executed while it is active (forward code,
hand-written backward code inside autograd.Functions, autograd's own bookkeeping) and runs three
checkers on that stream:

  * write-set:  no mutating operator may write into a *protected* storage (caller's arguments,
                module buffers/parameters, tensors owned by another thread);
  * precision:  while the monitored call's floating dtype is D, no floating tensor narrower than
                D may be produced;
  * taint/linearity: dynamic taint tracking from the tainted input storages; every operator with a
                tainted operand must be linear in the tainted operands, and nothing may read a
                tainted tensor into Python (data-dependent control flow).

It also keeps an operator census and a trace signature (op names + operand shapes/dtypes).
"""
import hashlib
import torch
from torch.utils._python_dispatch import TorchDispatchMode
from torch.utils._pytree import tree_flatten

aten = torch.ops.aten


def _name(func):
    return str(func)  # e.g. 'aten.add.Tensor'


# operators that are linear in *all* their tensor operands jointly (any subset may be tainted)
STRUCTURAL = {
    'aten.view.default', 'aten._unsafe_view.default', 'aten.reshape.default', 'aten.slice.Tensor',
    'aten.select.int', 'aten.unsqueeze.default', 'aten.squeeze.dim', 'aten.squeeze.default',
    'aten.squeeze.dims',
    'aten.expand.default', 'aten.permute.default', 'aten.transpose.int', 'aten.t.default',
    'aten.cat.default', 'aten.stack.default', 'aten.clone.default', 'aten.contiguous.default',
    'aten.alias.default', 'aten.detach.default', 'aten.detach_.default', 'aten.unbind.int',
    'aten.split.Tensor', 'aten.split_with_sizes.default', 'aten.as_strided.default',
    'aten.repeat.default', 'aten.flip.default', 'aten.roll.default', 'aten.neg.default',
    'aten.sum.default', 'aten.sum.dim_IntList', 'aten.mean.default', 'aten.mean.dim',
    'aten.avg_pool2d.default', 'aten.upsample_nearest2d.default', 'aten.upsample_nearest2d.vec',
    'aten.reflection_pad1d.default', 'aten.reflection_pad2d.default',
    'aten.replication_pad1d.default', 'aten.replication_pad2d.default',
    'aten.view_as.default', 'aten.narrow.default', 'aten.lift_fresh.default',
    'aten.unfold.default', 'aten.diagonal.default', 'aten.movedim.int', 'aten.chunk.default',
    'aten.select_backward.default', 'aten.slice_backward.default',
    'aten._reshape_alias.default', 'aten.expand_as.default', 'aten.avg_pool2d_backward.default',
    'aten.upsample_nearest2d_backward.default', 'aten.positive.default',
}
# result does not depend on the *values* of the tainted operand
VALUE_FREE = {
    'aten.new_zeros.default', 'aten.zeros_like.default', 'aten.ones_like.default',
    'aten.new_empty.default', 'aten.empty_like.default', 'aten.new_ones.default',
    'aten.new_full.default', 'aten.full_like.default', 'aten.sym_size.int',
    'aten.new_empty_strided.default', 'aten.empty_strided.default',
}
ADDITIVE = {'aten.add.Tensor', 'aten.sub.Tensor', 'aten.add_.Tensor', 'aten.sub_.Tensor'}
SCALAR_ADD = {'aten.add.Scalar', 'aten.sub.Scalar', 'aten.add_.Scalar', 'aten.sub_.Scalar'}
MULT = {'aten.mul.Tensor', 'aten.mul_.Tensor', 'aten.mul.Scalar', 'aten.mul_.Scalar',
        'aten.mm.default', 'aten.bmm.default', 'aten.matmul.default', 'aten.dot.default',
        'aten.mv.default'}
DIV = {'aten.div.Tensor', 'aten.div_.Tensor', 'aten.div.Scalar', 'aten.div_.Scalar'}
CONV = {'aten.convolution.default', 'aten.conv2d.default', 'aten.conv_transpose2d.input',
        'aten._convolution.default', 'aten.convolution_backward.default'}
GATHER = {'aten.index.Tensor', 'aten.index_select.default', 'aten.gather.default',
          'aten.take.default'}
PAD = {'aten.constant_pad_nd.default'}
COPY = {'aten.copy_.default', 'aten._to_copy.default', 'aten.to.dtype', 'aten.to.device',
        'aten.to.dtype_layout'}
READS = {'aten._local_scalar_dense.default', 'aten.item.default', 'aten.is_nonzero.default',
         'aten.equal.default', 'aten.allclose.default'}
NONLINEAR_PREFIXES = (
    'aten.clamp', 'aten.abs', 'aten.relu', 'aten.sqrt', 'aten.rsqrt', 'aten.pow', 'aten.exp', 'aten.log',
    'aten.tanh', 'aten.sigmoid', 'aten.sign', 'aten.sgn', 'aten.max', 'aten.min', 'aten.amax', 'aten.amin',
    'aten.sort', 'aten.topk', 'aten.round', 'aten.floor', 'aten.ceil', 'aten.trunc', 'aten.hardtanh',
    'aten.threshold', 'aten.where', 'aten.masked_fill', 'aten.norm', 'aten.linalg_vector_norm', 'aten.std',
    'aten.var', 'aten.reciprocal', 'aten.square', 'aten.softmax', 'aten._softmax', 'aten.gt', 'aten.lt',
    'aten.ge', 'aten.le', 'aten.eq', 'aten.ne', 'aten.isnan', 'aten.isfinite', 'aten.nan_to_num',
    'aten.argmax', 'aten.argmin', 'aten.nonzero', 'aten.any', 'aten.all', 'aten.median', 'aten.leaky_relu',
    'aten.gelu', 'aten.silu', 'aten.sin', 'aten.cos', 'aten.atan2', 'aten.hypot', 'aten.fmod', 'aten.remainder',
    'aten.maximum', 'aten.minimum', 'aten.dropout', 'aten.native_dropout', 'aten.bernoulli')
ZEROING = {'aten.zero_.default', 'aten.fill_.Scalar', 'aten.zeros.default'}


class Violation(dict):
    pass


class DispatchMonitor(TorchDispatchMode):
    def __init__(self, protect=(), taint=(), call_dtype=None, check_linear=False,
                 record_trace=False, label=''):
        super().__init__()
        self.label = label
        self.census = {}
        self.nops = 0
        self.keep = []               # keeps every tensor seen alive: no address reuse
        self.protected = {}          # storage ptr -> description
        for desc, t in protect:
            self.protect(t, desc)
        self.tainted = set()
        for t in taint:
            sp = self._sp(t)
            if sp:
                self.tainted.add(sp)
                self.keep.append(t)
        self.call_dtype = call_dtype
        self.check_linear = check_linear
        self.record_trace = record_trace
        self._trace = hashlib.sha1()
        self.write_violations = []
        self.precision_violations = []
        self.nonlinear = []          # proven non-linear / affine / data-dependent uses
        self.unclassified = {}       # op name -> count (tainted operand, not in any table)
        self.mutating_ops = {}       # op name -> count
        self.tainted_ops = 0

    # -- helpers
    @staticmethod
    def _sp(t):
        try:
            if t.numel() == 0:
                return 0
            return t.untyped_storage().data_ptr()
        except Exception:
            return 0

    def protect(self, t, desc):
        sp = self._sp(t)
        if sp:
            self.protected[sp] = desc
            self.keep.append(t)

    def trace_signature(self):
        return self._trace.hexdigest()[:16]

    # -- the hook
    def __torch_dispatch__(self, func, types, args=(), kwargs=None):
        kwargs = kwargs or {}
        name = _name(func)
        self.census[name] = self.census.get(name, 0) + 1
        self.nops += 1
        flat, _ = tree_flatten((args, kwargs))
        tins = [a for a in flat if isinstance(a, torch.Tensor)]
        self.keep.extend(tins)
        # ---- write-set (before execution: we can still name the target)
        schema = getattr(func, '_schema', None)
        if schema is not None and schema.is_mutable:
            self.mutating_ops[name] = self.mutating_ops.get(name, 0) + 1
            for i, a in enumerate(schema.arguments):
                if a.alias_info is not None and a.alias_info.is_write:
                    tgt = args[i] if i < len(args) else kwargs.get(a.name)
                    tgts = tgt if isinstance(tgt, (list, tuple)) else [tgt]
                    for tg in tgts:
                        if isinstance(tg, torch.Tensor):
                            sp = self._sp(tg)
                            if sp in self.protected:
                                self.write_violations.append(
                                    {'op': name, 'target': self.protected[sp],
                                     'shape': list(tg.shape)})
        if self.check_linear:
            tainted_in = [t for t in tins if self._sp(t) in self.tainted]
        out = func(*args, **kwargs)
        oflat, _ = tree_flatten(out)
        touts = [o for o in oflat if isinstance(o, torch.Tensor)]
        self.keep.extend(touts)
        # ---- precision
        if self.call_dtype is not None:
            want = torch.finfo(self.call_dtype).bits
            for o in touts:
                if o.is_floating_point() and torch.finfo(o.dtype).bits < want:
                    self.precision_violations.append({'op': name, 'dtype': str(o.dtype),
                                                      'shape': list(o.shape)})
        # ---- trace
        if self.record_trace:
            self._trace.update(name.encode())
            for t in tins:
                self._trace.update(repr((tuple(t.shape), str(t.dtype))).encode())
        # ---- taint / linearity
        if self.check_linear and tainted_in:
            self.tainted_ops += 1
            self._classify(name, func, args, kwargs, tins, tainted_in, touts)
        return out

    def _is_t(self, x):
        return isinstance(x, torch.Tensor) and self._sp(x) in self.tainted

    def _taint_outs(self, touts):
        for o in touts:
            sp = self._sp(o)
            if sp:
                self.tainted.add(sp)

    def _classify(self, name, func, args, kwargs, tins, tainted_in, touts):
        bad = None
        if name in VALUE_FREE:
            return                                   # output independent of tainted values
        if name in STRUCTURAL:
            pass
        elif name in COPY:
            pass                                     # copy_(dst, src): dst storage becomes tainted
        elif name in ADDITIVE:
            a, b = args[0], args[1]
            for other in (a, b):
                if isinstance(other, torch.Tensor):
                    if not self._is_t(other) and other.numel() and bool((other != 0).any()):
                        bad = 'adds a non-zero constant tensor (affine, not linear)'
                elif other != 0:
                    bad = 'adds a non-zero scalar (affine, not linear)'
        elif name in SCALAR_ADD:
            if args[1] != 0:
                bad = 'adds a non-zero scalar (affine, not linear)'
        elif name in MULT:
            a, b = args[0], args[1]
            if self._is_t(a) and self._is_t(b):
                bad = 'multiplies two input-dependent tensors'
        elif name in DIV:
            if self._is_t(args[1]):
                bad = 'divides by an input-dependent tensor'
        elif name in CONV:
            if name == 'aten.convolution_backward.default':
                # grad_output, input, weight: bilinear; linear iff exactly one of them tainted
                nt = sum(1 for x in args[:3] if self._is_t(x))
                if nt > 1:
                    bad = 'convolution_backward with several input-dependent operands'
            else:
                w = args[1]
                bias = args[2] if len(args) > 2 else kwargs.get('bias')
                if self._is_t(w) and self._is_t(args[0]):
                    bad = 'convolution with input-dependent weight'
                if isinstance(bias, torch.Tensor) and not self._is_t(bias) and bool((bias != 0).any()):
                    bad = 'convolution with a non-zero bias (affine)'
        elif name in GATHER:
            idx = args[1:] if name != 'aten.index_select.default' else args[2:]
            fl, _ = tree_flatten(idx)
            if any(self._is_t(x) for x in fl):
                bad = 'indexes with an input-dependent index'
        elif name in PAD:
            val = args[2] if len(args) > 2 else kwargs.get('value', 0)
            if val not in (0, 0.0, None):
                bad = 'pads with a non-zero constant (affine)'
        elif name in READS:
            bad = 'reads an input-dependent tensor into Python (data-dependent control flow)'
        elif name in ZEROING:
            return
        elif name.startswith(NONLINEAR_PREFIXES) and name.split('.')[1].rstrip('_') in {
                p.split('.')[1] for p in NONLINEAR_PREFIXES}:
            bad = 'applies the non-linear operator %s to input-dependent data' % name
        else:
            self.unclassified[name] = self.unclassified.get(name, 0) + 1
        if bad:
            self.nonlinear.append({'op': name, 'why': bad})
        self._taint_outs(touts)
        # in-place ops return their (already known) self; copy_ taints the destination storage
        if name in COPY or name.endswith('_.Tensor') or name.endswith('_.Scalar'):
            if isinstance(args[0], torch.Tensor):
                sp = self._sp(args[0])
                if sp:
                    self.tainted.add(sp)

    # -- summaries
    def linear_certificate(self):
        """-> ('certified' | 'refuted' | 'inconclusive', detail)"""
        if self.nonlinear:
            return 'refuted', self.nonlinear[:5]
        if self.unclassified:
            return 'inconclusive', dict(self.unclassified)
        if self.tainted_ops == 0:
            return 'inconclusive', 'no operator consumed the input'
        return 'certified', {'tainted_ops': self.tainted_ops}
