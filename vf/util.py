"""Workload building blocks shared by the property monitors."""
import contextlib, hashlib, math, os
import numpy as np
import torch

from .dispatchmon import DispatchMonitor

EPS64 = float(np.finfo(np.float64).eps)
EPS32 = float(np.finfo(np.float32).eps)


@contextlib.contextmanager
def default_dtype(dt):
    old = torch.get_default_dtype()
    torch.set_default_dtype(dt)
    try:
        yield
    finally:
        torch.set_default_dtype(old)


def gen(seed, *salt):
    h = hashlib.sha256(('%s|' % seed + '|'.join(str(s) for s in salt)).encode()).digest()
    g = torch.Generator()
    g.manual_seed(int.from_bytes(h[:7], 'big'))
    return g


INPUT_KINDS = ['randn', 'dynrange', 'const', 'alt', 'outlier', 'ramp']


def make_input(kind, shape, seed, dtype=torch.float64):
    """deterministic input of a named class"""
    g = gen(seed, kind, tuple(shape))
    if kind == 'randn':
        x = torch.randn(*shape, generator=g, dtype=torch.float64)
    elif kind == 'dynrange':
        x = torch.randn(*shape, generator=g, dtype=torch.float64) * \
            10 ** (torch.rand(*shape, generator=g, dtype=torch.float64) * 12 - 6)
    elif kind == 'const':
        x = torch.full(shape, 3.25, dtype=torch.float64)
    elif kind == 'alt':
        x = torch.ones(*shape, dtype=torch.float64)
        idx = torch.arange(shape[-1]) % 2 == 1
        x[..., idx] = -1
        if len(shape) == 4:
            idy = torch.arange(shape[-2]) % 2 == 1
            x[..., idy, :] *= -1
    elif kind == 'outlier':
        x = torch.randn(*shape, generator=g, dtype=torch.float64)
        flat = x.view(-1)
        flat[int(torch.randint(0, flat.numel(), (1,), generator=g))] = 1e6
    elif kind == 'ramp':
        x = torch.arange(int(np.prod(shape)), dtype=torch.float64).reshape(*shape) / 7.0 + 1.0
    elif kind == 'stripes':
        # oriented, image-amplitude texture: 2-pixel-wide diagonal stripes 128 +- 100
        idx = torch.arange(shape[-1]).reshape(1, -1) + (torch.arange(shape[-2]).reshape(-1, 1) if len(shape) >= 4 else 0)
        pat = ((idx // 2) % 2).to(torch.float64) * 200.0 + 28.0
        x = pat.expand(*shape).clone() if len(shape) >= 4 else pat.reshape(-1)[:shape[-1]].expand(*shape).clone()
    elif kind == 'offset':
        x = torch.randn(*shape, generator=g, dtype=torch.float64) + 1000.0
    elif kind == 'small':
        x = torch.randn(*shape, generator=g, dtype=torch.float64) * 1e-5
    elif kind == 'zeros':
        x = torch.zeros(*shape, dtype=torch.float64)
    else:
        raise ValueError(kind)
    return x.to(dtype)


def impulses(spatial, dtype=torch.float64):
    """all unit impulses of a spatial shape stacked on the batch axis: (prod(spatial), 1, *spatial)"""
    n = int(np.prod(spatial))
    return torch.eye(n, dtype=dtype).reshape(n, 1, *spatial)


# Context rotation.  A transform's result may not depend on whether autograd is recording (C15), so every
# differential check is entitled to make any module call whose arguments carry no gradient inside
# torch.no_grad() / torch.set_grad_enabled(False): the oracle that judges the call stays the same.  Two
# calls in six are made that way (deterministic in the per-cell call counter, so a replay repeats it).
CTX = {'n': 0, 'plain': 0, 'no_grad': 0, 'set_grad_enabled(False)': 0, 'on': os.environ.get('VERIF_CTX_ROTATION', '1') == '1'}


def reset_ctx():
    CTX['n'] = 0


def _needs_grad(o):
    if isinstance(o, torch.Tensor):
        return o.requires_grad
    if isinstance(o, (list, tuple)):
        return any(_needs_grad(e) for e in o)
    if isinstance(o, dict):
        return any(_needs_grad(e) for e in o.values())
    return False


def call_lib(fn, *a, **k):
    mode = 'plain'
    if CTX['on'] and isinstance(fn, torch.nn.Module) and torch.is_grad_enabled():
        CTX['n'] += 1
        pick = {2: 'no_grad', 5: 'set_grad_enabled(False)'}.get(CTX['n'] % 6)
        if pick and not _needs_grad(a) and not _needs_grad(k) and not any(p.requires_grad for p in fn.parameters()):
            mode = pick
    CTX[mode] += 1
    try:
        if mode == 'plain':
            return True, fn(*a, **k)
        with (torch.no_grad() if mode == 'no_grad' else torch.set_grad_enabled(False)):
            return True, fn(*a, **k)
    except Exception as e:     # the library raising is an observation, not a harness error
        return False, e


def np64(t):
    return t.detach().cpu().numpy().astype(np.float64)


def compare(name, got, ref, tol):
    """-> (ok, detail, ratio)  shape must match exactly, values within tol"""
    g = np64(got) if isinstance(got, torch.Tensor) else np.asarray(got)
    r = np.asarray(ref)
    if tuple(g.shape) != tuple(r.shape):
        return False, '%s: shape %s, reference %s' % (name, tuple(g.shape), tuple(r.shape)), float('inf')
    if g.size == 0:
        return True, None, 0.0
    if not np.all(np.isfinite(g)):
        return False, '%s: non-finite values' % name, float('inf')
    err = float(np.max(np.abs(g - r)))
    ratio = err / tol if tol > 0 else (0.0 if err == 0 else float('inf'))
    if err > tol:
        idx = np.unravel_index(int(np.argmax(np.abs(g - r))), g.shape)
        return False, '%s: max|diff|=%.3e > tol %.3e at %s (got %.6g, reference %.6g)' % (
            name, err, tol, tuple(int(i) for i in idx), g[idx], r[idx]), ratio
    return True, None, ratio


def compare_many(items, tol):
    """items: [(name, got, ref)] -> (ok, first failing detail, max ratio)"""
    worst, fail = 0.0, None
    for name, got, ref in items:
        ok, d, ratio = compare(name, got, ref, tol)
        worst = max(worst, ratio)
        if not ok and fail is None:
            fail = d
    return fail is None, fail, worst


def flat_outputs(out):
    """(yl, [yh...]) / tensor / list -> list of tensors in a fixed order"""
    if isinstance(out, torch.Tensor):
        return [out]
    res = []
    for o in out:
        res.extend(flat_outputs(o) if o is not None else [])
    return res


def operator_from_impulses(outs, n_in):
    """outs: list of tensors with batch axis = impulse index -> matrix (sum of out dims, n_in)"""
    cols = [np64(o).reshape(n_in, -1) for o in outs]
    return np.concatenate(cols, axis=1).T


def row_gain(A):
    return float(np.max(np.sum(np.abs(A), axis=1))) if A.size else 1.0


def linear_certificate(fn, tainted_inputs, zero_inputs=None):
    """Run fn() under the taint monitor (tainted_inputs = the tensors whose storages are the
    input); optionally run fn_zero() and compare op traces.  fn is a thunk taking the inputs."""
    mon = DispatchMonitor(taint=tainted_inputs, check_linear=True, record_trace=True)
    with mon:
        fn(*tainted_inputs)
    status, detail = mon.linear_certificate()
    info = {'ops': mon.nops, 'tainted_ops': mon.tainted_ops, 'trace': mon.trace_signature()}
    mon.keep = []
    if status == 'certified' and zero_inputs is not None:
        mon2 = DispatchMonitor(taint=zero_inputs, check_linear=True, record_trace=True)
        with mon2:
            fn(*zero_inputs)
        info['trace_zero'] = mon2.trace_signature()
        mon2.keep = []
        if info['trace_zero'] != info['trace']:
            return 'refuted', 'operator trace differs between two inputs of the same shape ' \
                              '(input-dependent control flow)', info
    return status, detail, info


def reload_in_place(mod, donor):
    """overwrite mod's buffers / parameters in place with donor's (load_state_dict); False if the
    library refuses (e.g. the two modules no longer have buffers of the same shape)"""
    try:
        mod.load_state_dict(donor.state_dict())
        return True
    except Exception:
        return False


def call_lib_nograd(fn, *a, **k):
    """the same call inside torch.no_grad() (a context in which autograd.Functions are bypassed by some
    'fast paths'): results must not depend on it"""
    import torch
    with torch.no_grad():
        return call_lib(fn, *a, **k)


def call_lib_eval(fn, *a, **k):
    """the same call with the module switched to evaluation mode (`module.eval()`, the usual way to run
    inference): these transforms have no train-time behaviour, so results must not depend on it"""
    was = getattr(fn, 'training', None)
    if was is None:
        return call_lib(fn, *a, **k)
    fn.eval()
    try:
        return call_lib(fn, *a, **k)
    finally:
        fn.train(was)


def channel_sliced(x):
    """the same values as a view whose batch and channel axes cannot be merged (the first C channels of a
    tensor with C+1 channels): what `rgba[:, :3]` is to a caller"""
    return torch.cat([x, x[:, :1]], dim=1)[:, :x.shape[1]]
