"""pytest plugin: runs the repository's own test-suite with the context-free monitors attached
(M-ARG, M-INV, M-CACHE, M-DISP write-set/precision, M-SHAPE.dtype) - a few hundred more real
executions observed for free.  Usage (from /repo):
    PYTORCH_WAVELETS_VERIF=1 PYTHONPATH=/repo:/verif pytest -p vf.pytest_plugin tests/test_dwt.py ...
Writes $VERIF_PLUGIN_OUT (json): monitor evaluation counts and every violation with the test id.
"""
import os, json

_current = {'test': None}
_records = []


def pytest_configure(config):
    from vf import core, attach
    core.ensure_deps()
    os.environ.setdefault(core.GUARD, '1')
    attach.install(dispatch=True, functions=True)


def pytest_runtest_setup(item):
    _current['test'] = item.nodeid


def pytest_runtest_teardown(item, nextitem):
    from vf import attach
    for v in attach.drain():
        v['test'] = item.nodeid
        _records.append(v)


def pytest_sessionfinish(session, exitstatus):
    from vf import attach
    out = os.environ.get('VERIF_PLUGIN_OUT')
    if not out:
        return
    wid = os.environ.get('PYTEST_XDIST_WORKER', 'main')
    with open('%s.%s' % (out, wid), 'w') as f:
        json.dump({'records': _records, 'counts': dict(attach.COUNTS), 'ops': int(sum(attach.CENSUS.values())),
                   'mutating': dict(attach.MUTATING), 'exitstatus': int(exitstatus)}, f, default=str)
