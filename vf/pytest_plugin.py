"""pytest plugin: runs the repository's own test-suite with the context-free monitors attached
(M-ARG, M-INV, M-CACHE, M-DISP write-set/precision, M-SHAPE.dtype) - a few hundred more real
executions observed for free.  Usage (from /repo):
    PYTORCH_WAVELETS_VERIF=1 PYTHONPATH=/repo:/verif pytest -p vf.pytest_plugin tests/test_dwt.py ...
Writes $VERIF_PLUGIN_OUT (json): monitor evaluation counts and every violation with the test id.
"""
import os, json

_current = {'test': None}
_records = []


def pytest_configure(config):
    from vf import core, attach
    core.ensure_deps()
    os.environ.setdefault(core.GUARD, '1')
    if os.environ.get('VERIF_PLUGIN_FN') == '1':
        # Function-level adjoint monitors instead of the call wrappers (every backward invocation of the
        # suite is judged)
        from vf.props import c05, c06
        c05.install_function_monitor()
        c06.install_function_monitor()
    else:
        attach.install(dispatch=True, functions=True)


def pytest_runtest_setup(item):
    _current['test'] = item.nodeid


_fn_records = []


def pytest_runtest_teardown(item, nextitem):
    from vf import attach
    for v in attach.drain():
        v['test'] = item.nodeid
        _records.append(v)
    if os.environ.get('VERIF_PLUGIN_FN') == '1':
        from vf.props import c05, c06
        for mod, tag in ((c05, 'C05'), (c06, 'C06')):
            for rec in mod._FN['log']:
                r = dict(rec)
                r['test'] = item.nodeid
                r['prop'] = tag
                if tag == 'C05':
                    r['kf_key'] = c05.fn_kf(rec) if rec.get('status') == 'violated' else None
                _fn_records.append(r)
            del mod._FN['log'][:]


def pytest_sessionfinish(session, exitstatus):
    from vf import attach
    out = os.environ.get('VERIF_PLUGIN_OUT')
    if not out:
        return
    wid = os.environ.get('PYTEST_XDIST_WORKER', 'main')
    with open('%s.%s' % (out, wid), 'w') as f:
        json.dump({'fn_records': _fn_records, 'records': _records, 'counts': dict(attach.COUNTS), 'ops': int(sum(attach.CENSUS.values())),
                   'mutating': dict(attach.MUTATING), 'exitstatus': int(exitstatus)}, f, default=str)
