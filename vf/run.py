"""Entry point.

  python -m vf.run <Cxx> --tier quick|thorough [--seed N] [--repo PATH]
  python -m vf.run replay <path-to-replay.json> [--repo PATH]
  python -m vf.run --worker <Cxx> <tier> <seed> <i> <n> <out>       (internal)
"""
import sys, os, time, json, importlib, traceback, argparse

sys.path.insert(0, os.path.dirname(os.path.dirname(os.path.abspath(__file__))))
from vf import core


def _reset_ctx():
    try:
        from vf import util
        util.reset_ctx()
    except Exception:
        pass


def load_prop(prop):
    return importlib.import_module('vf.props.' + prop.lower())


def worker(argv):
    prop, tier, seed, i, n, out = argv[0], argv[1], int(argv[2]), int(argv[3]), int(argv[4]), argv[5]
    core.ensure_deps()
    core.setup_repo_import()
    import torch
    torch.set_num_threads(1)
    mod = load_prop(prop)
    cells = mod.cells(tier, seed)
    mine = cells[i::n]
    w = core.ShardWriter(out)
    w.meta = {'cells': len(mine)}
    if hasattr(mod, 'worker_setup'):
        mod.worker_setup(tier, seed)
    t0 = time.time()
    budget = getattr(mod, 'WORKER_BUDGET', {}).get(tier)
    done = 0
    for cell in mine:
        if budget and time.time() - t0 > budget:
            break
        core.PARTIAL = []
        _reset_ctx()
        try:
            rs = mod.run_cell(cell, seed)
        except Exception:
            # keep the verdicts reached before the failure: a crash in one sub-check must not hide them
            rs = list(core.PARTIAL)
            core.PARTIAL = None
            rs.append(core.res(core.INCONCLUSIVE, {'cell': cell}, 'harness',
                               'harness error: ' + traceback.format_exc()[-600:]))
        core.PARTIAL = None
        w.add(rs)
        done += 1
    w.meta['cells_done'] = done
    w.meta['skipped_for_budget'] = len(mine) - done
    if hasattr(mod, 'worker_meta'):
        w.meta.update(mod.worker_meta())
    try:
        from vf import util
        w.meta['call_contexts'] = {k: util.CTX[k] for k in ('plain', 'no_grad', 'set_grad_enabled(False)')}
        c01 = sys.modules.get('vf.props.c01')
        if c01 is not None and c01.WAVE_FORMS:
            w.meta['wave_forms'] = dict(c01.WAVE_FORMS)
    except Exception:
        pass
    w.flush(True)


def main():
    if len(sys.argv) > 1 and sys.argv[1] == '--worker':
        return worker(sys.argv[2:])
    ap = argparse.ArgumentParser()
    ap.add_argument('prop')
    ap.add_argument('path', nargs='?')
    ap.add_argument('--tier', default=os.environ.get('VERIF_TIER', 'quick'))
    ap.add_argument('--seed', type=int, default=None)
    ap.add_argument('--repo', default=None)
    a = ap.parse_args()
    if a.repo:
        os.environ['VERIF_REPO'] = os.path.abspath(a.repo)
    seed = a.seed if a.seed is not None else core.seed_from_env(0)
    core.ensure_deps()
    if a.prop == 'replay':
        return replay(a.path)
    prop = a.prop.upper()
    tier = a.tier
    t0 = time.time()
    mod = load_prop(prop)
    if hasattr(mod, 'driver'):
        return mod.driver(tier, seed, t0)
    # cells are generated without importing the repository
    cells = mod.cells(tier, seed)
    results, meta = core.run_sharded(prop, tier, seed, len(cells), mod.TIMEOUT[tier])
    extra = {'cells': len(cells), 'workers': meta}
    ctxs = {}
    for m in meta:
        for k, v in (m.get('call_contexts') or {}).items():
            ctxs[k] = ctxs.get(k, 0) + v
    if ctxs:
        extra['module_calls_by_autograd_context'] = ctxs
    forms = {}
    for m in meta:
        for k, v in (m.get('wave_forms') or {}).items():
            forms[k] = forms.get(k, 0) + v
    if forms:
        extra['dwt_modules_built_by_wave_argument_form'] = forms
    if hasattr(mod, 'extra_cov'):
        extra.update(mod.extra_cov(results, meta))
    rc = core.finish(prop, tier, seed, results, t0, mod.RULE, mod.ASSUMPTIONS,
                     mod.MIN_HELD[tier], extra_cov=extra,
                     exhaustive=getattr(mod, 'EXHAUSTIVE', {}).get(tier, False),
                     nontrivial=getattr(mod, 'nontrivial', None))
    return rc


def replay(path):
    d = json.load(open(path))
    prop = d['property']
    core.setup_repo_import()
    import torch
    torch.set_num_threads(1)
    mod = load_prop(prop)
    cell = d['result']['case'].get('cell', d['result']['case'])
    if hasattr(mod, 'worker_setup'):
        mod.worker_setup(d.get('tier', 'quick'), d.get('seed', 0))
    _reset_ctx()
    rs = mod.run_cell(cell, d.get('seed', 0))
    bad = [r for r in rs if r['status'] == core.VIOLATED]
    for r in rs:
        print(r['status'], r['monitor'], json.dumps(r['case'], default=str)[:200], str(r.get('detail'))[:300])
    if bad:
        print('VIOLATION property=%s replay=%s' % (prop, path))
        return 1
    return 0


if __name__ == '__main__':
    sys.exit(main())
