"""Reference model of the DTCWT scattering layers: NumPy `dtcwt` forward + the defining formulas.

No code shared with pytorch_wavelets.  Layout conventions follow the documented output:
first order  (N, 7C, H/2, W/2)  = [lowpass C | band0 C | ... | band5 C]
second order (N, 49C, H8/4, W8/4) = [S0 | S1_j1 (6) | S1_j2 (6) | S2_j1 (36)] x C, band-major.
"""
import numpy as np
from . import refs


def qshift_for(biort, qshift=None):
    if biort == 'near_sym_b_bp':
        return 'qshift_b_bp'
    return qshift or 'qshift_a'


def extend_even(x):
    if x.shape[2] % 2:
        x = np.concatenate([x, x[:, :, -1:]], axis=2)
    if x.shape[3] % 2:
        x = np.concatenate([x, x[:, :, :, -1:]], axis=3)
    return x


def extend_mult8(x):
    """first floor((8-r)/2) and last ceil((8-r)/2) rows / columns repeated"""
    for ax in (2, 3):
        while x.shape[ax] % 8:              # a side of 2 needs two passes (2 -> 6 -> 8)
            rem = x.shape[ax] % 8
            before, after = (8 - rem) // 2, (9 - rem) // 2
            idx = [slice(None)] * 4
            idx[ax] = slice(0, before)
            a = x[tuple(idx)]
            idx[ax] = slice(max(0, x.shape[ax] - after), None)
            b = x[tuple(idx)]
            x = np.concatenate([a, x, b], axis=ax)
    return x


def avgpool2(a):
    s = a.shape
    return a.reshape(s[:-2] + (s[-2] // 2, 2, s[-1] // 2, 2)).mean(axis=(-3, -1))


def mag(yh, b, colour):
    """yh complex (N,C,6,h,w) -> (N,C,6,h,w) or, jointly over 3 colour channels, (N,6,h,w)"""
    p = yh.real ** 2 + yh.imag ** 2
    if colour:
        return np.sqrt(p.sum(axis=1) + b ** 2) - b
    return np.sqrt(p + b ** 2) - b


def scat1(x, biort, b, colour):
    x = extend_even(np.asarray(x, dtype=np.float64))
    N, C = x.shape[:2]
    yl, yh, _ = refs.dtcwt_fwd(x, biort, qshift_for(biort), 1)
    lo = avgpool2(yl)
    m = mag(yh[0], b, colour)
    if colour:
        return np.concatenate([lo, m], axis=1)
    m = m.transpose(0, 2, 1, 3, 4).reshape(N, 6 * C, m.shape[-2], m.shape[-1])
    return np.concatenate([lo, m], axis=1)


def scat2(x, biort, qshift, b, colour):
    x = extend_mult8(np.asarray(x, dtype=np.float64))
    N, C = x.shape[:2]
    q = qshift_for(biort, qshift)
    yl, yh, _ = refs.dtcwt_fwd(x, biort, q, 2)
    S0 = avgpool2(yl)
    if colour:
        M1 = mag(yh[0], b, True)                       # (N,6,h,w)
        M2 = mag(yh[1], b, True)                       # (N,6,h/2,w/2)
        yl1, yh1, _ = refs.dtcwt_fwd(M1, biort, q, 1)
        S1_1 = avgpool2(yl1)                           # (N,6,h/2,w/2)
        M2_1 = mag(yh1[0], b, False)                   # (N,6,6,h/2,w/2)
        S2_1 = M2_1.transpose(0, 2, 1, 3, 4).reshape(N, 36, M2_1.shape[-2], M2_1.shape[-1])
        return np.concatenate([S0, S1_1, M2, S2_1], axis=1)
    M1 = mag(yh[0], b, False).transpose(0, 2, 1, 3, 4)  # (N,6,C,h,w)
    h, w = M1.shape[-2:]
    M1 = M1.reshape(N, 6 * C, h, w)
    S1_2 = mag(yh[1], b, False).transpose(0, 2, 1, 3, 4)   # (N,6,C,h/2,w/2)
    yl1, yh1, _ = refs.dtcwt_fwd(M1, biort, q, 1)
    S1_1 = avgpool2(yl1).reshape(N, 6, C, h // 2, w // 2)
    M2_1 = mag(yh1[0], b, False)                        # (N,6C,6,h/2,w/2)
    S2_1 = M2_1.transpose(0, 2, 1, 3, 4).reshape(N, 36, C, h // 2, w // 2)
    z = np.concatenate([S0[:, None], S1_1, S1_2, S2_1], axis=1)
    return z.reshape(N, 49 * C, h // 2, w // 2)


def stage_gain(biort, qshift, order):
    import dtcwt.coeffs as dc
    b = dc.biort(biort)
    g1 = max(np.abs(b[i]).sum() for i in range(0, len(b), 2)) ** 2 * 2
    if order == 1:
        return float(g1)
    q = dc.qshift(qshift_for(biort, qshift))
    idx = [0, 1, 4, 5] + ([8, 9] if len(q) == 12 else [])
    g2 = max(np.abs(q[i]).sum() for i in idx) ** 2 * 2
    return float(g1 * max(g1, g2))
