"""Uniform view of every public transform: args = list of tensors with leading (N, C); outputs
likewise.  Used by the cross-cutting monitors (C07 linearity, C15 purity, C16 dtype)."""
import numpy as np
import pywt
from . import refs, util, scatref

LINEAR_KINDS = ['dwt1f', 'dwt1i', 'dwt2f', 'dwt2i', 'swt', 'dtf', 'dti']
ALL_KINDS = LINEAR_KINDS + ['scat1', 'scat2']


def random_config(kind, rnd, max_flen=16):
    """a seeded configuration (everything but N, C) for a transform kind"""
    c = {'kind': kind}
    if kind.startswith('dwt') or kind == 'swt':
        waves = [w for w in refs.all_wavelets() if refs.flen(w) <= max_flen]
        c['wave'] = rnd.choice(waves)
        c['J'] = rnd.choice([1, 2, 3])
        if kind == 'swt':
            m = 2 ** c['J']
            c['mode'] = rnd.choice(['periodization', 'periodic'])
            c['shape'] = [m * rnd.choice([1, 2, 3]), m * rnd.choice([1, 2, 4])]
        else:
            c['mode'] = rnd.choice(refs.MODES)
            c['shape'] = [rnd.choice([5, 8, 9, 12, 16, 17, 24])] if kind in ('dwt1f', 'dwt1i') else \
                [rnd.choice([4, 5, 8, 9, 12]), rnd.choice([4, 6, 7, 10, 16])]
    elif kind in ('dtf', 'dti'):
        c['biort'], c['qshift'] = rnd.choice(refs.BIORTS), rnd.choice(refs.QSHIFTS)
        c['J'] = rnd.choice([1, 2, 3])
        c['shape'] = [rnd.choice([4, 5, 6, 8, 10, 12, 14, 24, 36]), rnd.choice([4, 6, 7, 8, 12, 20, 40])]
        if rnd.random() < 0.25:
            c['dt_mode'] = 'zero'         # the padding-mode option of the DTCWT modules (default 'symmetric')
    else:
        c['biort'] = rnd.choice(['near_sym_a', 'near_sym_b', 'near_sym_b_bp', 'antonini', 'legall'])
        c['qshift'] = 'qshift_b_bp' if c['biort'] == 'near_sym_b_bp' else rnd.choice(['qshift_a', 'qshift_b', 'qshift_c'])
        c['magbias'] = rnd.choice([1e-2, 1e-2, 1.0, 1e-3, 0.0, 0.0])
        c['colour'] = rnd.random() < 0.3
        c['shape'] = [rnd.choice([8, 9, 12, 16, 20]), rnd.choice([8, 10, 13, 16])]
    return c


class Adapter:
    def __init__(self, cell, build_dtype=None, convert=None, mod=None):
        import torch
        import pytorch_wavelets as pw
        from pytorch_wavelets.dwt.transform2d import SWTForward
        self.cell = cell
        k = cell['kind']
        bd = build_dtype or torch.float64
        import contextlib
        if mod is not None:
            self.mod = mod            # an existing module instance shared with other adapters (other shapes)
        # (no touching of torch's process-global default dtype when nothing is constructed)
        with (contextlib.nullcontext() if mod is not None else util.default_dtype(bd)):
            if mod is not None:
                pass
            elif k == 'dwt1f':
                self.mod = pw.DWT1DForward(J=cell['J'], wave=cell['wave'], mode=cell['mode'])
            elif k == 'dwt1i':
                self.mod = pw.DWT1DInverse(wave=cell['wave'], mode=cell['mode'])
            elif k == 'dwt2f':
                self.mod = pw.DWTForward(J=cell['J'], wave=cell['wave'], mode=cell['mode'])
            elif k == 'dwt2i':
                self.mod = pw.DWTInverse(wave=cell['wave'], mode=cell['mode'])
            elif k == 'swt':
                self.mod = SWTForward(J=cell['J'], wave=cell['wave'], mode=cell['mode'])
            elif k == 'dtf':
                self.mod = pw.DTCWTForward(biort=cell['biort'], qshift=cell['qshift'], J=cell['J'],
                                           mode=cell.get('dt_mode', 'symmetric'))
            elif k == 'dti':
                self.mod = pw.DTCWTInverse(biort=cell['biort'], qshift=cell['qshift'], mode=cell.get('dt_mode', 'symmetric'))
            elif k == 'scat1':
                self.mod = pw.ScatLayer(biort=cell['biort'], magbias=cell['magbias'], combine_colour=cell['colour'])
            elif k == 'scat2':
                self.mod = pw.ScatLayerj2(biort=cell['biort'], qshift=cell['qshift'], magbias=cell['magbias'],
                                          combine_colour=cell['colour'])
            else:
                raise ValueError(k)
        if convert == 'float':
            self.mod = self.mod.float()
        elif convert == 'double':
            self.mod = self.mod.double()
        self.inverse = k in ('dwt1i', 'dwt2i', 'dti')
        self.linear = k in LINEAR_KINDS
        self.none_mask = cell.get('none_mask')
        self.arg_shapes = self._arg_shapes()
        self.bias = float(cell.get('magbias', 0.0))
        if (k.startswith('dwt') or k == 'swt') and isinstance(cell['wave'], (list, tuple)):
            g = max(float(np.abs(np.array(f)).sum()) for f in cell['wave']) ** (cell['J'] * (1 if k in ('dwt1f', 'dwt1i') else 2))
        elif k.startswith('dwt') or k == 'swt':
            g = refs.l1gain(cell['wave'], self.inverse) ** (cell['J'] * (1 if k in ('dwt1f', 'dwt1i') else 2))
        elif k in ('dtf', 'dti'):
            g = refs.dtcwt_gain(cell['biort'], cell['qshift'], cell['J'], self.inverse)
        else:
            g = scatref.stage_gain(cell['biort'], cell['qshift'], 1 if k == 'scat1' else 2)
        self.gain = max(float(g), 1.0)

    def _arg_shapes(self):
        c = self.cell
        k = c['kind']
        sp = c['shape']
        if not self.inverse:
            return [list(sp)]
        if k in ('dwt1i', 'dwt2i'):
            L = refs.flen(c['wave'])
            cur, det = list(sp), []
            for _ in range(c['J']):
                cur = [pywt.dwt_coeff_len(n, L, c['mode']) for n in cur]
                det.append(list(cur))
            band = [] if k == 'dwt1i' else [3]
            return [cur] + [band + d for d in det]
        z = np.zeros([1, 1] + sp)
        yl, yh, _ = refs.dtcwt_fwd(z, c['biort'], c['qshift'], c['J'])
        return [list(yl.shape[2:])] + [[6] + list(h.shape[3:]) + [2] for h in yh]

    def true_gain(self, cap=900):
        """largest absolute row sum of the operator, from one execution on all unit inputs (linear
        transforms only); None when the operator is too large or the call raises"""
        import torch
        if not self.linear:
            return None
        sizes = [int(np.prod(s)) for s in self.arg_shapes]
        n = sum(sizes)
        if n > cap:
            return None
        eye = torch.eye(n, dtype=torch.float64)
        parts = torch.split(eye, sizes, dim=1)
        args = [p.reshape([n, 1] + s) for p, s in zip(parts, self.arg_shapes)]
        keep = self.none_mask
        try:
            outs = self.apply(args)
        except Exception:
            return None
        g = 0.0
        for o in outs:
            g = max(g, float(o.abs().sum(dim=0).max()))
        return g

    def channels(self, C):
        return 3 if self.cell.get('colour') else C

    def rand_args(self, N, C, seed, kind='randn', dtype=None):
        import torch
        C = self.channels(C)
        return [util.make_input(kind, [N, C] + s, seed + 13 * i, dtype or torch.float64)
                for i, s in enumerate(self.arg_shapes)]

    def call(self, args):
        """the raw library call on the argument structure the module expects"""
        if not self.inverse:
            return self.mod(args[0])
        highs = list(args[1:])
        if self.none_mask:
            enc = self.cell.get('absent_enc')       # how an absent entry is spelled: None, a 0-dim tensor, an empty tensor
            mark = (lambda h: None) if not enc else (lambda h: h.new_zeros([])) if enc == '0-dim' else (lambda h: h.new_zeros([0]))
            highs = [mark(h) if m else h for h, m in zip(highs, self.none_mask)]
        low = None if self.cell.get('low_absent') else args[0]      # DTCWTInverse: a missing lowpass
        return self.mod((low, highs))

    def apply(self, args):
        return util.flat_outputs(self.call(args))
