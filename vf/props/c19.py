"""C19 - the non-separable one-level 2-D filter banks equal the separable ones.

Monitor M-REF (differential between the two real implementations, observed on the same
arguments): afb2d_nonsep vs afb2d after the documented reshape to (N,C,4,H',W'); sfb2d_nonsep vs
sfb2d.  Impulse batches give both operators; "both raise" is agreement, one raising is not.
Cross-anchor: the separable result is also compared with pywt.dwt2 / idwt2 so that a common-mode
error of both implementations is not invisible.
"""
import numpy as np
import pywt
from .. import core, refs, util
from ..core import res, HELD, VIOLATED, INCONCLUSIVE

PROP = 'C19'
MODES4 = ['zero', 'symmetric', 'reflect', 'periodization']
RULE = ('cells = (filter form: one wavelet for both axes | ordered pair of distinct wavelets as a '
        '4-tuple, mode in zero/symmetric/reflect/periodization, H, W) over all 106 wavelets and '
        'sides 2..9,12,13,16 x 2,3,4,6,7,11,16; per cell impulse batch + dense inputs for analysis, '
        'one-hot coefficient batch + dense coefficients for synthesis; distinct by (cell, direction, '
        'input kind); non-trivial when input not all-zero and at least one implementation returned'
        '; N in {1,2,4}, C in 1..5 (incl. exactly 4, the number of sub-bands); filters as lists and as prepared tensors; equal-length sequences and in-place updated prepared kernels')
ASSUMPTIONS = ['float64; tolerance 1e-11 * gain * max|x|',
               'the separable functional bank is itself anchored to pywt.dwt2/idwt2 in the same run']
TIMEOUT = {'quick': 900, 'thorough': 3000}
WORKER_BUDGET = {'quick': 600, 'thorough': 2400}
MIN_HELD = {'quick': 300, 'thorough': 26706}
HS = [2, 3, 4, 5, 6, 7, 8, 9, 12, 13, 16]
WS = [2, 3, 4, 6, 7, 11, 16]


def cells(tier, seed):
    rnd = core.rng_for(seed, PROP, tier)
    waves = refs.all_wavelets()
    out = []
    reps = 1 if tier == 'quick' else 8
    for w in waves:
        for mode in MODES4:
            for _ in range(reps):
                out.append({'wc': w, 'wr': w, 'form': 2, 'mode': mode, 'shape': [rnd.choice(HS), rnd.choice(WS)],
                            'N': rnd.choice([1, 2, 4]), 'C': rnd.choice([1, 2, 3, 4, 5])})
                w2 = rnd.choice([v for v in waves if refs.flen(v) != refs.flen(w)])
                if rnd.random() < 0.2:
                    # a different wavelet of the SAME length on the rows (identical shapes either way: only
                    # the values tell the four outer products apart)
                    same = [v for v in waves if v != w and refs.flen(v) == refs.flen(w) and
                            pywt.Wavelet(v).dec_lo != pywt.Wavelet(w).dec_lo]
                    if same:
                        w2 = rnd.choice(same)
                out.append({'wc': w, 'wr': w2, 'form': 4, 'mode': mode,
                            'shape': [rnd.choice(HS), rnd.choice(WS)], 'N': rnd.choice([1, 2, 4]),
                            'C': rnd.choice([1, 2, 3, 4, 5])})
                if rnd.random() < 0.3:
                    out.append(dict(out[-rnd.choice([1, 2])], tensors=True))
    # histories: consecutive calls with different wavelets of EQUAL filter length and the same channel
    # count (what a cache keyed on shapes / recycled storage addresses would confuse), list form and
    # prepared-tensor form updated in place
    bylen = {}
    for w in waves:
        bylen.setdefault(refs.flen(w), []).append(w)
    groups = [v for k, v in sorted(bylen.items()) if len(v) >= 3 and k <= 20]
    for g in groups:
        for _ in range(1 if tier == 'quick' else 4):
            out.append({'sequence': rnd.sample(g, min(len(g), 4)), 'mode': rnd.choice(MODES4), 'shape': [rnd.choice([6, 8, 9]), rnd.choice([6, 7, 12])],
                        'N': 1, 'C': rnd.choice([2, 3, 4]), 'form': 2, 'wc': g[0], 'wr': g[0]})
    rnd.shuffle(out)
    return out


def tensor_filts(cell, synthesis, nonsep):
    """filters already prepared as tensors by the library's own prep_filt_* helpers (the other
    documented way of passing them)"""
    import torch
    from pytorch_wavelets.dwt import lowlevel
    f = filts(dict(cell, form=4), synthesis)
    with util.default_dtype(torch.float64):
        if nonsep:
            return (lowlevel.prep_filt_sfb2d_nonsep if synthesis else lowlevel.prep_filt_afb2d_nonsep)(*f)
        t = (lowlevel.prep_filt_sfb2d if synthesis else lowlevel.prep_filt_afb2d)(*f)
        return t[:2] if cell['form'] == 2 else t


def filts(cell, synthesis):
    wc, wr = pywt.Wavelet(cell['wc']), pywt.Wavelet(cell['wr'])
    if synthesis:
        f = (wc.rec_lo, wc.rec_hi, wr.rec_lo, wr.rec_hi)
    else:
        f = (wc.dec_lo, wc.dec_hi, wr.dec_lo, wr.dec_hi)
    f = tuple(np.array(a) for a in f)
    return f[:2] if cell['form'] == 2 else f


def gain(cell, synthesis):
    return refs.l1gain(cell['wc'], synthesis) * refs.l1gain(cell['wr'], synthesis)


def analysis(cell, kind, x):
    import torch
    from pytorch_wavelets.dwt import lowlevel
    case = {'cell': cell, 'dir': 'analysis', 'input': kind}
    out = []
    with util.default_dtype(torch.float64):
        if cell.get('tensors'):
            ok1, y1 = util.call_lib(lambda: lowlevel.afb2d(x, tensor_filts(cell, False, False), cell['mode']))
            ok2, y2 = util.call_lib(lambda: lowlevel.afb2d_nonsep(x, tensor_filts(cell, False, True), cell['mode']))
        else:
            ok1, y1 = util.call_lib(lowlevel.afb2d, x, filts(cell, False), cell['mode'])
            ok2, y2 = util.call_lib(lowlevel.afb2d_nonsep, x, filts(cell, False), cell['mode'])
    tol = 1e-11 * gain(cell, False) * max(float(x.abs().max()), 1e-300)
    if ok1 != ok2:
        out.append(res(VIOLATED, case, 'M-REF', 'separable %s, non-separable %s' % (
            'returned' if ok1 else 'raised %r' % (y1,), 'returned' if ok2 else 'raised %r' % (y2,))))
        return out, (y1 if ok1 else None)
    if not ok1:
        out.append(res(HELD, case, 'M-REF', 'both raise (%r)' % (y1,), ratio=0.0, raised=True))
        return out, None
    try:
        a = y1.reshape(y1.shape[0], -1, 4, y1.shape[-2], y1.shape[-1])
        b = y2.reshape(y2.shape[0], -1, 4, y2.shape[-2], y2.shape[-1])
    except Exception as e:
        out.append(res(VIOLATED, case, 'M-SHAPE', 'cannot reshape to (N,C,4,H,W): %r' % (e,)))
        return out, None
    okc, detail, ratio = util.compare('afb2d_nonsep vs afb2d', b, util.np64(a), tol)
    out.append(res(HELD, case, 'M-REF', ratio=ratio) if okc else res(VIOLATED, case, 'M-REF', detail, ratio=ratio))
    # anchor to pywt
    try:
        cA, (cH, cV, cD) = pywt.dwt2(util.np64(x), (pywt.Wavelet(cell['wc']), pywt.Wavelet(cell['wr'])),
                                     mode=cell['mode'], axes=(-2, -1))
        ref = np.stack([cA, cH, cV, cD], axis=2)
        okc, detail, ratio = util.compare('afb2d vs pywt.dwt2', a, ref, tol)
        out.append(res(HELD, case, 'M-ANCHOR', ratio=ratio) if okc else
                   res(VIOLATED, case, 'M-ANCHOR', detail, ratio=ratio))
    except Exception as e:
        out.append(res(INCONCLUSIVE, case, 'M-ANCHOR', 'pywt raised %r' % (e,)))
    return out, a


def synthesis(cell, kind, coeffs):
    import torch
    from pytorch_wavelets.dwt import lowlevel
    case = {'cell': cell, 'dir': 'synthesis', 'input': kind}
    out = []
    ll, lh, hl, hh = [coeffs[:, :, i].contiguous() for i in range(4)]
    with util.default_dtype(torch.float64):
        if cell.get('tensors'):
            ok1, y1 = util.call_lib(lambda: lowlevel.sfb2d(ll, lh, hl, hh, tensor_filts(cell, True, False), cell['mode']))
            ok2, y2 = util.call_lib(lambda: lowlevel.sfb2d_nonsep(coeffs, tensor_filts(cell, True, True), cell['mode']))
        else:
            ok1, y1 = util.call_lib(lowlevel.sfb2d, ll, lh, hl, hh, filts(cell, True), cell['mode'])
            ok2, y2 = util.call_lib(lowlevel.sfb2d_nonsep, coeffs, filts(cell, True), cell['mode'])
    tol = 1e-11 * gain(cell, True) * max(float(coeffs.abs().max()), 1e-300)
    if ok1 != ok2:
        out.append(res(VIOLATED, case, 'M-REF', 'separable %s, non-separable %s' % (
            'returned' if ok1 else 'raised %r' % (y1,), 'returned' if ok2 else 'raised %r' % (y2,))))
        return out
    if not ok1:
        out.append(res(HELD, case, 'M-REF', 'both raise (%r)' % (y1,), ratio=0.0, raised=True))
        return out
    okc, detail, ratio = util.compare('sfb2d_nonsep vs sfb2d', y2, util.np64(y1), tol)
    out.append(res(HELD, case, 'M-REF', ratio=ratio) if okc else res(VIOLATED, case, 'M-REF', detail, ratio=ratio))
    try:
        c = util.np64(coeffs)
        ref = pywt.idwt2((c[:, :, 0], (c[:, :, 1], c[:, :, 2], c[:, :, 3])),
                         (pywt.Wavelet(cell['wc']), pywt.Wavelet(cell['wr'])), mode=cell['mode'], axes=(-2, -1))
        okc, detail, ratio = util.compare('sfb2d vs pywt.idwt2', y1, ref, tol)
        out.append(res(HELD, case, 'M-ANCHOR', ratio=ratio) if okc else
                   res(VIOLATED, case, 'M-ANCHOR', detail, ratio=ratio))
    except Exception as e:
        out.append(res(INCONCLUSIVE, case, 'M-ANCHOR', 'pywt raised %r' % (e,)))
    return out


def sequence_cell(cell, seed):
    import torch
    from pytorch_wavelets.dwt import lowlevel
    out = []
    sp = cell['shape']
    x = util.make_input('randn', [cell['N'], cell['C']] + sp, seed)
    prepared = {}
    for rep in range(2):
        for w in cell['sequence']:
            c = dict(cell, wc=w, wr=w, step='rep%d' % rep)
            c.pop('sequence')
            rs, a = analysis(c, 'sequence', x)
            out.extend(rs)
            if a is not None:
                out.extend(synthesis(c, 'sequence', util.make_input('randn', list(a.shape), seed + 3)))
    # prepared tensors updated in place between calls (same storage, new taps)
    ws = cell['sequence']
    c0 = dict(cell, wc=ws[0], wr=ws[0])
    c0.pop('sequence')
    with util.default_dtype(torch.float64):
        fa, fs = tensor_filts(c0, False, True), tensor_filts(c0, True, True)
        for w in ws[1:3]:
            c = dict(c0, wc=w, wr=w, step='in-place update of the prepared kernel')
            okp, ya0 = util.call_lib(lowlevel.afb2d_nonsep, x, fa, cell['mode'])
            fa.copy_(tensor_filts(c, False, True))
            fs_prev_ok = util.call_lib(lowlevel.sfb2d_nonsep, util.make_input('randn', [cell['N'], cell['C'], 4, 5, 5], seed), fs, cell['mode'])[0]
            fs.copy_(tensor_filts(c, True, True))
            ok1, y1 = util.call_lib(lowlevel.afb2d, x, filts(c, False), cell['mode'])
            ok2, y2 = util.call_lib(lowlevel.afb2d_nonsep, x, fa, cell['mode'])
            case = {'cell': c, 'dir': 'analysis', 'input': 'prepared-kernel-updated-in-place'}
            tol = 1e-11 * gain(c, False) * float(x.abs().max())
            if ok1 and ok2:
                a = y1.reshape(y1.shape[0], -1, 4, y1.shape[-2], y1.shape[-1])
                b = y2.reshape(y2.shape[0], -1, 4, y2.shape[-2], y2.shape[-1])
                okc, d, ratio = util.compare('afb2d_nonsep vs afb2d', b, util.np64(a), tol)
                out.append(res(HELD, case, 'M-REF', ratio=ratio) if okc else res(VIOLATED, case, 'M-REF', d, ratio=ratio))
                co = util.make_input('randn', list(a.shape), seed + 5)
                ll, lh, hl, hh = [co[:, :, i].contiguous() for i in range(4)]
                ok3, r1 = util.call_lib(lowlevel.sfb2d, ll, lh, hl, hh, filts(c, True), cell['mode'])
                ok4, r2 = util.call_lib(lowlevel.sfb2d_nonsep, co, fs, cell['mode'])
                case = {'cell': c, 'dir': 'synthesis', 'input': 'prepared-kernel-updated-in-place'}
                if ok3 and ok4:
                    okc, d, ratio = util.compare('sfb2d_nonsep vs sfb2d', r2, util.np64(r1), 1e-11 * gain(c, True) * float(co.abs().max()))
                    out.append(res(HELD, case, 'M-REF', ratio=ratio) if okc else res(VIOLATED, case, 'M-REF', d, ratio=ratio))
                elif ok3 != ok4:
                    out.append(res(VIOLATED, case, 'M-REF', 'one implementation raised'))
            elif ok1 != ok2:
                out.append(res(VIOLATED, case, 'M-REF', 'one implementation raised'))
    return out


def run_cell(cell, seed):
    import torch
    if cell.get('sequence'):
        return sequence_cell(cell, seed)
    out = []
    sp = cell['shape']
    rnd = core.rng_for(seed, PROP, 'k', str(cell))
    cshape = None
    Lc, Lr = refs.flen(cell['wc']), refs.flen(cell['wr'])
    opix = (sp[0] + Lc) * (sp[1] + Lr) // 4 + 1
    cap = max(8, int(2e7 / (opix * Lc * Lr)))
    for kind in ['impulse', 'randn', rnd.choice(['dynrange', 'const', 'alt', 'outlier', 'ramp'])]:
        if kind == 'impulse':
            x = util.impulses(sp)
            if x.shape[0] > cap:    # torch's im2col buffer grows with batch x output x kernel area
                x = x[torch.randperm(x.shape[0], generator=util.gen(seed, 'imp', str(cell)))[:cap]]
        else:
            x = util.make_input(kind, [cell['N'], cell['C']] + sp, seed)
        rs, a = analysis(cell, kind, x)
        out.extend(rs)
        if a is not None and kind != 'impulse':
            cshape = list(a.shape)
    if cshape is None:
        cshape = [cell['N'], cell['C'], 4, pywt.dwt_coeff_len(sp[0], Lc, cell['mode']),
                  pywt.dwt_coeff_len(sp[1], Lr, cell['mode'])]
    n = 4 * cshape[-2] * cshape[-1]
    k = min(400, cap)
    if n <= k:
        eye = torch.eye(n, dtype=torch.float64)
    else:
        pos = torch.randperm(n, generator=util.gen(seed, 'pos', str(cell)))[:k]
        eye = torch.zeros(k, n, dtype=torch.float64)
        eye[torch.arange(k), pos] = 1.0
    out.extend(synthesis(cell, 'impulse', eye.reshape(eye.shape[0], 1, 4, cshape[-2], cshape[-1])))
    for kind in ['randn', rnd.choice(['dynrange', 'const', 'alt', 'outlier', 'ramp'])]:
        out.extend(synthesis(cell, kind, util.make_input(kind, cshape, seed + 11)))
    return out


def nontrivial(r):
    return r['monitor'] == 'M-REF' and not r.get('raised')


def extra_cov(results, meta):
    w = set()
    for r in results:
        c = r['case'].get('cell')
        if c:
            w.add(c['wc'])
    return {'wavelets_covered': len(w),
            'both_raise': sum(1 for r in results if r.get('raised')),
            'four_filter_cells': sum(1 for r in results if r['case'].get('cell', {}).get('form') == 4)}
