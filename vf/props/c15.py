"""C15 - calls are pure: no argument mutation, no dependence on call history or threads.

Sequential model: a pure function table REF[call spec] where a call spec is (transform
configuration, dtype, N, C, input recipe).  Every entry is produced by evaluating that one call in
its own *fresh process* (no history at all).  A recorded history is consistent with the model iff
every returned value equals its table entry - the model is stateless, so no search is needed.

Histories: seeded sequences of operations (construct module / call / call with autograd recording
and backward / call that raises) over a pool of near-colliding configurations, run with 1, 2, 4, 8
and 16 threads sharing the module instances, with sys.setswitchinterval(1e-5) and seeded
pre-emption injected at library source lines (sys.monitoring LINE events -> sleep(0)); the thorough
tier also injects exceptions at random library lines and requires the following calls to match.
Call and return events are recorded at the client boundary with a global monotonic counter and
checked offline (M-HIST).  While the history runs, the context-free monitors of vf.attach watch
every public entry point: M-ARG (argument tensors/lists bit-identical, same _version, same
identities), M-INV (buffers/parameters bit-identical), M-CACHE (coefficient cache contents
constant, arrays read-only), M-DISP.write (no mutating ATen op writes into a storage owned by an
argument or a buffer).
Results are compared bitwise; a mismatch within 4 ulp is "rounding-level divergence"
(inconclusive, torch kernel selection), anything larger a violation.
"""
import os, sys, json, time, hashlib, subprocess, threading, itertools, random
from concurrent.futures import ThreadPoolExecutor
import numpy as np

if __name__ == '__main__':
    sys.path.insert(0, os.path.dirname(os.path.dirname(os.path.dirname(os.path.abspath(__file__)))))
from vf import core, refs, util, adapters, inject
from vf.core import res, HELD, VIOLATED, INCONCLUSIVE

PROP = 'C15'
RULE = ('a pool of near-colliding call specs (same length / different filter, same numel / different shape, '
        'f32 / f64, forward and inverse sharing tables, 1-D / 2-D, scattering, raising calls); reference table = '
        'one fresh process per spec; histories = seeded operation sequences run with 1..16 threads sharing module '
        'instances under injected pre-emption (and injected exceptions in the thorough tier); an evaluation is one '
        'returned call compared with the table or one attached-monitor verdict; distinct = distinct (spec, thread '
        'count, position-in-history) triples; non-trivial when the call returned tensors'
        "; calls inside torch.no_grad / inference_mode / set_grad_enabled(False), strided arguments, cotangents bit-identical after autograd.grad, module buffers independent of the caller's filter arrays, torch-global state unchanged by every call")
ASSUMPTIONS = ['torch kernels are deterministic for a fixed intra-op thread setting (pinned to 1)',
               'schedules are sampled, not enumerated; CPython serialises bytecodes, true parallelism exists only '
               'inside torch ops', 'float results compared bitwise, 4-ulp fallback class is inconclusive']
WORK = os.environ.get('VERIF_C15_WORK') or os.path.join(core.WORK, PROP)


# ---- the pool ----------------------------------------------------------------------------------

def pool(seed, tier):
    rnd = core.rng_for(seed, PROP, 'pool')
    cfgs = []
    # hand-made collisions
    for w in ('db2', 'db4', 'bior2.2'):
        for mode in ('zero', 'symmetric', 'periodization'):
            cfgs.append({'kind': 'dwt1f', 'wave': w, 'mode': mode, 'J': 2, 'shape': [16]})
    cfgs += [{'kind': 'dwt1f', 'wave': 'db2', 'mode': 'periodization', 'J': 2, 'shape': [17]},
             {'kind': 'dwt1f', 'wave': 'db2', 'mode': 'periodic', 'J': 1, 'shape': [16]},
             {'kind': 'dwt1i', 'wave': 'db2', 'mode': 'zero', 'J': 2, 'shape': [16]},
             {'kind': 'dwt1i', 'wave': 'db2', 'mode': 'periodization', 'J': 2, 'shape': [16]},
             {'kind': 'dwt1i', 'wave': 'db4', 'mode': 'symmetric', 'J': 1, 'shape': [16]},
             {'kind': 'dwt2f', 'wave': 'db2', 'mode': 'zero', 'J': 2, 'shape': [8, 8]},
             {'kind': 'dwt2f', 'wave': 'db2', 'mode': 'zero', 'J': 2, 'shape': [4, 16]},
             {'kind': 'dwt2f', 'wave': 'db2', 'mode': 'periodization', 'J': 2, 'shape': [8, 8]},
             {'kind': 'dwt2f', 'wave': 'db2', 'mode': 'periodization', 'J': 1, 'shape': [9, 7]},
             {'kind': 'dwt2f', 'wave': 'db4', 'mode': 'symmetric', 'J': 1, 'shape': [8, 8]},
             {'kind': 'dwt2f', 'wave': 'bior2.2', 'mode': 'reflect', 'J': 1, 'shape': [8, 8]},
             {'kind': 'dwt2i', 'wave': 'db2', 'mode': 'zero', 'J': 2, 'shape': [8, 8]},
             {'kind': 'dwt2i', 'wave': 'db2', 'mode': 'periodization', 'J': 2, 'shape': [8, 8]},
             {'kind': 'dwt2i', 'wave': 'db2', 'mode': 'periodization', 'J': 2, 'shape': [8, 8], 'none_mask': [True, False]},
             {'kind': 'swt', 'wave': 'db2', 'mode': 'periodization', 'J': 2, 'shape': [8, 8]},
             {'kind': 'swt', 'wave': 'db2', 'mode': 'periodic', 'J': 1, 'shape': [8, 8]}]
    for b, q in (('near_sym_a', 'qshift_a'), ('near_sym_a', 'qshift_b'), ('near_sym_b', 'qshift_a'), ('legall', 'qshift_06')):
        cfgs.append({'kind': 'dtf', 'biort': b, 'qshift': q, 'J': 2, 'shape': [8, 8]})
        cfgs.append({'kind': 'dti', 'biort': b, 'qshift': q, 'J': 2, 'shape': [8, 8]})
    for b, q in (('antonini', 'qshift_c'), ('near_sym_b', 'qshift_d'), ('legall', 'qshift_c'), ('near_sym_a', 'qshift_32')):
        cfgs.append({'kind': 'dtf', 'biort': b, 'qshift': q, 'J': 2, 'shape': [8, 12]})
    cfgs += [{'kind': 'dtf', 'biort': 'near_sym_a', 'qshift': 'qshift_a', 'J': 3, 'shape': [10, 14]},
             {'kind': 'dtf', 'biort': 'near_sym_a', 'qshift': 'qshift_a', 'J': 1, 'shape': [7, 9]},
             {'kind': 'scat1', 'biort': 'near_sym_a', 'qshift': 'qshift_a', 'magbias': 1e-2, 'colour': False, 'shape': [8, 8]},
             {'kind': 'scat1', 'biort': 'near_sym_b_bp', 'qshift': 'qshift_b_bp', 'magbias': 1e-2, 'colour': False, 'shape': [8, 8]},
             {'kind': 'scat1', 'biort': 'near_sym_a', 'qshift': 'qshift_a', 'magbias': 1e-2, 'colour': True, 'shape': [9, 8]},
             {'kind': 'scat2', 'biort': 'near_sym_a', 'qshift': 'qshift_a', 'magbias': 1e-2, 'colour': False, 'shape': [16, 16]},
             {'kind': 'scat2', 'biort': 'near_sym_b_bp', 'qshift': 'qshift_b_bp', 'magbias': 1e-2, 'colour': False, 'shape': [16, 12]}]
    # same construction parameters, other shapes (one module instance serves all of them in a history),
    # including images so small that deeper levels only see boundary, and both sides not multiples of 8
    cfgs += [{'kind': 'dwt2f', 'wave': 'db2', 'mode': 'zero', 'J': 2, 'shape': [3, 5]},
             {'kind': 'dwt2f', 'wave': 'db2', 'mode': 'zero', 'J': 2, 'shape': [24, 20]},
             {'kind': 'dwt2f', 'wave': 'db4', 'mode': 'symmetric', 'J': 1, 'shape': [5, 6]},
             {'kind': 'dwt1f', 'wave': 'db4', 'mode': 'zero', 'J': 2, 'shape': [5]},
             {'kind': 'dwt1f', 'wave': 'db4', 'mode': 'zero', 'J': 2, 'shape': [40]},
             {'kind': 'dtf', 'biort': 'near_sym_a', 'qshift': 'qshift_a', 'J': 2, 'shape': [4, 6]},
             {'kind': 'dtf', 'biort': 'near_sym_a', 'qshift': 'qshift_a', 'J': 2, 'shape': [20, 12]},
             {'kind': 'scat2', 'biort': 'near_sym_a', 'qshift': 'qshift_a', 'magbias': 1e-2, 'colour': False, 'shape': [12, 20]},
             {'kind': 'scat2', 'biort': 'near_sym_a', 'qshift': 'qshift_a', 'magbias': 1e-2, 'colour': False, 'shape': [9, 13]},
             {'kind': 'scat1', 'biort': 'near_sym_a', 'qshift': 'qshift_a', 'magbias': 1e-2, 'colour': False, 'shape': [5, 7]}]
    # filter banks given as tuples, with an odd number of taps (no pywt wavelet has odd length)
    odd = [[0.02, -0.05, 0.3, 0.7, 0.35, -0.08, 0.01], [0.01, 0.06, -0.4, 0.75, -0.33, -0.07, 0.02]]
    cfgs += [{'kind': 'dwt2f', 'wave': odd, 'mode': 'periodization', 'J': 1, 'shape': [8, 8]},
             {'kind': 'dwt2f', 'wave': odd, 'mode': 'zero', 'J': 2, 'shape': [8, 10]},
             {'kind': 'dwt1f', 'wave': odd, 'mode': 'periodization', 'J': 2, 'shape': [16]}]
    # pyramids with absent levels spelled as marker tensors (what a skip_hps forward returns): the list and
    # its entries are the caller's
    cfgs += [{'kind': 'dti', 'biort': 'near_sym_a', 'qshift': 'qshift_a', 'J': 3, 'shape': [16, 16], 'none_mask': [True, False, False], 'absent_enc': '0-dim'},
             {'kind': 'dti', 'biort': 'near_sym_b', 'qshift': 'qshift_b', 'J': 3, 'shape': [16, 16], 'none_mask': [False, True, False], 'absent_enc': 'empty'},
             {'kind': 'dwt2i', 'wave': 'db2', 'mode': 'zero', 'J': 2, 'shape': [12, 12], 'none_mask': [True, False]}]
    # raising calls
    cfgs += [{'kind': 'dwt1f', 'wave': 'db8', 'mode': 'reflect', 'J': 1, 'shape': [5], 'raises': True},
             {'kind': 'dwt2f', 'wave': 'db8', 'mode': 'reflect', 'J': 2, 'shape': [6, 6], 'raises': True}]
    extra = 2 if tier == 'quick' else 40
    for _ in range(extra):
        cfgs.append(adapters.random_config(rnd.choice(adapters.ALL_KINDS), rnd))
    specs = []
    for ci, c in enumerate(cfgs):
        # two specs share everything but the input values: concurrent calls on one shared module with
        # the same shapes but different data are what a per-module scratch buffer would corrupt
        variants = [('float64', 2, 2, 0), ('float64', 2, 2, 3), ('float32', 2, 2, 0), ('float64', 1, 3, 1), ('float64', 1, 4, 4)]
        if tier == 'thorough':
            variants.append(('float32', 3, 1, 2))
        for dt, N, C, s in variants:
            specs.append({'id': len(specs), 'cfg': c, 'cfg_id': ci, 'dtype': dt, 'N': N, 'C': C, 'in_seed': 1000 + 7 * ci + s})
        if ci % 3 == 0:
            # a call whose data has the other precision than the module it is sent to (the module is shared
            # with the float64 specs above): whatever that call does - it is refused on this tree - it must do
            # in the fresh process too, and it must leave the module as it was for the calls that follow
            specs.append({'id': len(specs), 'cfg': c, 'cfg_id': ci, 'dtype': 'float64', 'arg_dtype': 'float32', 'N': 2, 'C': 2,
                          'in_seed': 1000 + 7 * ci + 5})
    return specs


# ---- evaluating one call spec ---------------------------------------------------------------------

def tinfo(t):
    a = t.detach().contiguous().numpy()
    return {'dtype': str(a.dtype), 'shape': list(a.shape), 'digest': hashlib.blake2b(a.tobytes(), digest_size=12).hexdigest()}


def make_args(ad, spec):
    import torch
    dt = torch.float64 if spec.get('arg_dtype', spec['dtype']) == 'float64' else torch.float32
    return ad.rand_args(spec['N'], spec['C'], spec['in_seed'], 'randn', dt)


def strided_view(a):
    """the same values behind a non-contiguous layout (storage transposed in the last two axes)"""
    if a.dim() < 3:
        return a
    return a.transpose(-1, -2).contiguous().transpose(-1, -2)


def evaluate(ad, spec, with_grad, no_grad_ctx=False, strided=False, keep=None):
    """-> (record, arrays).  record: {'raised': type} or {'outs': [tinfo], 'grads': [tinfo]}"""
    import torch
    args = make_args(ad, spec)
    if strided:
        args = [strided_view(a) for a in args]
    if with_grad:
        args = [a.requires_grad_(True) for a in args]
    try:
        if no_grad_ctx:
            # autograd not recording, in each of the three ways a caller can arrange that
            ctx = {'inference_mode': torch.inference_mode, 'set_grad_enabled': lambda: torch.set_grad_enabled(False)}.get(
                no_grad_ctx, torch.no_grad)
            with ctx():
                outs = ad.apply(args)
        else:
            outs = ad.apply(args)
        if keep is not None:
            keep.append(([tinfo(o)['digest'] for o in outs], outs))
    except inject.InjectedFault:
        raise
    except Exception as e:
        return {'raised': type(e).__name__}, []
    rec = {'outs': [tinfo(o) for o in outs]}
    arrays = [o.detach().contiguous().numpy() for o in outs]
    if with_grad:
        g = torch.Generator().manual_seed(spec['in_seed'] + 99)
        cots = [torch.randn(o.shape, generator=g, dtype=torch.float64).to(o.dtype) for o in outs]
        live = [(o, c) for o, c in zip(outs, cots) if o.requires_grad]
        cots_before = [c.clone() for o, c in live]
        try:
            grads = torch.autograd.grad([o for o, c in live], args, [c for o, c in live], allow_unused=True)
            # the cotangents are the caller's tensors as well: a backward pass may not write into them
            if any(not torch.equal(c, b) for (o, c), b in zip(live, cots_before)):
                rec['cotangent_modified'] = True
        except inject.InjectedFault:
            raise
        except Exception as e:
            # a backward pass that raises (e.g. reflect extension of a short cotangent) is an
            # observation like any other: it must raise identically in the fresh process
            rec['grads'] = {'raised': type(e).__name__}
            return rec, arrays
        rec['grads'] = [tinfo(gr) if gr is not None else None for gr in grads]
        arrays += [gr.detach().contiguous().numpy() for gr in grads if gr is not None]
    return rec, arrays


def ref_main(specfile, idx, out):
    core.ensure_deps()
    core.setup_repo_import()
    import torch
    torch.set_num_threads(1)
    spec = json.load(open(specfile))[int(idx)]
    import torch
    bd = torch.float64 if spec['dtype'] == 'float64' else torch.float32
    ad = adapters.Adapter(spec['cfg'], bd)
    rec0, arr0 = evaluate(ad, spec, False)
    np.savez(out + '.npz', **{'a%d' % i: a for i, a in enumerate(arr0)})
    # the gradient reference comes from a second fresh module in this fresh process
    ad2 = adapters.Adapter(spec['cfg'], bd)
    rec1, arr1 = evaluate(ad2, spec, True)
    np.savez(out + '.g.npz', **{'a%d' % i: a for i, a in enumerate(arr1)})
    json.dump({'nograd': rec0, 'grad': rec1}, open(out, 'w'))


# ---- running one history ----------------------------------------------------------------------------

def ulp_distance(a, b):
    if a.shape != b.shape or a.dtype != b.dtype:
        return float('inf')
    if a.size == 0:
        return 0.0
    eps = np.finfo(a.dtype).eps
    sc = np.maximum(np.maximum(np.abs(a), np.abs(b)), np.abs(a).max() * 1e-3 + np.finfo(a.dtype).tiny)
    return float(np.max(np.abs(a.astype(np.float64) - b.astype(np.float64)) / (eps * sc)))


def hist_main(specfile, cfgjson, out):
    import faulthandler
    faulthandler.enable()          # a crash of the interpreter leaves its stacks in the history's log
    core.ensure_deps()
    core.setup_repo_import()
    import torch
    torch.set_num_threads(1)
    from vf import attach, inject
    attach.install(dispatch=True, functions=True)
    cfg = json.loads(cfgjson)
    specs = json.load(open(specfile))
    table = {}
    for s in specs:
        p = os.path.join(WORK, 'ref-%d.json' % s['id'])
        if os.path.exists(p):
            table[s['id']] = json.load(open(p))
    nthreads, nops, hseed = cfg['threads'], cfg['ops'], cfg['seed']
    sys.setswitchinterval(1e-5)
    if cfg.get('inject', True):
        inject.enable()
    modules = {}                 # (cfg_id, dtype) -> Adapter shared by all threads
    mlock = threading.Lock()
    counter = itertools.count()
    events = []
    elock = threading.Lock()

    def log(ev):
        with elock:
            ev['t'] = next(counter)
            events.append(ev)

    clock = threading.Lock()

    def construct(spec):
        # torch's default dtype is a process-global that the constructors read; the *harness* must not
        # race on it, so constructions are serialised among themselves (calls are not: a call that
        # consults the global default dtype would make its result depend on other threads)
        bd = torch.float64 if spec['dtype'] == 'float64' else torch.float32
        with clock:
            return adapters.Adapter(spec['cfg'], bd)

    def ctor_key(cfg):
        # construction parameters only: specs that differ in input shape share one module instance
        return tuple(sorted((k, repr(v)) for k, v in cfg.items() if k not in ('shape', 'raises', 'none_mask')))

    def get_module(spec, rnd, fresh):
        key = (ctor_key(spec['cfg']), spec['dtype'], repr(spec['cfg'].get('none_mask')))
        if fresh:
            return construct(spec), True
        with mlock:
            shared = modules.get(key)
        made = False
        if shared is None:
            shared = construct(spec).mod
            with mlock:
                shared = modules.setdefault(key, shared)
            made = True
        # a light per-spec view (shapes) around the one shared nn.Module instance
        return adapters.Adapter(spec['cfg'], mod=shared), made

    def compare(spec, rec, arrays, with_grad):
        ref = table.get(spec['id'])
        if ref is None:
            return 'noref', None
        want = ref['grad' if with_grad else 'nograd']
        # outputs must not depend on whether autograd is recording: compare outs with the no-grad reference too
        base = ref['nograd']
        if rec.get('cotangent_modified'):
            return 'differs', 'the backward pass wrote into the cotangent tensors it was given (argument mutation)'
        if 'raised' in rec or 'raised' in base:
            return ('same', None) if rec.get('raised') == base.get('raised') else \
                ('differs', 'raised %s, history-free reference %s' % (rec.get('raised'), base.get('raised', 'returned')))
        if rec['outs'] == base['outs'] and (not with_grad or rec.get('grads') == want.get('grads')):
            return 'same', None
        # digest mismatch: measure it.  Outputs are always measured against the *no-grad* fresh
        # reference (they must not depend on whether autograd is recording), gradients against the
        # fresh gradient reference
        ref0 = np.load(os.path.join(WORK, 'ref-%d.json.npz' % spec['id']))
        nout = len(ref0.files)
        want_arrays = [ref0['a%d' % i] for i in range(nout)]
        if with_grad:
            refg = np.load(os.path.join(WORK, 'ref-%d.json.g.npz' % spec['id']))
            want_arrays += [refg['a%d' % i] for i in range(nout, len(refg.files))]
        worst = 0.0
        if len(want_arrays) != len(arrays):
            return 'differs', 'returned %d tensors, reference %d' % (len(arrays), len(want_arrays))
        for a, w_ in zip(arrays, want_arrays):
            worst = max(worst, ulp_distance(a, w_))
        if worst <= 4:
            return 'ulp', 'max %.2f ulp from the history-free reference' % worst
        return 'differs', 'differs from the history-free reference by %.3g ulp' % worst

    focus = cfg.get('focus')
    hot = [s for s in specs if s['cfg_id'] in focus] if focus else None

    burst = cfg.get('burst')
    pairs = []
    if burst:
        # contention bursts: for every (configuration, dtype) of the focus group that has two specs with
        # the same shapes but different data, half of the threads hammer one and half the other, on the
        # one shared module instance, in a tight loop started at a barrier
        bykey = {}
        for sp_ in hot:
            bykey.setdefault((sp_['cfg_id'], sp_['dtype'], sp_['N'], sp_['C']), []).append(sp_)
        pairs = [v[:2] for k, v in sorted(bykey.items()) if len(v) >= 2]
    barrier = threading.Barrier(nthreads) if burst and nthreads > 1 else None

    def worker(tid):
        rnd = random.Random(hseed * 1000 + tid)
        inject.thread_init(hseed * 7919 + tid, cfg.get('p_yield', 0.02))
        if burst:
            plan = []
            for pr in pairs:
                plan.append('barrier')
                plan += [pr[tid % 2]] * nops
        else:
            plan = [None] * nops
        for k, item in enumerate(plan):
            if item == 'barrier':
                if barrier is not None:
                    try:
                        barrier.wait(timeout=120)
                    except threading.BrokenBarrierError:
                        pass
                continue
            if item is not None:
                spec = item
            elif hot:      # few keys, many threads: every thread hammers the same few module instances
                spec = hot[rnd.randrange(len(hot))]
            else:
                spec = specs[rnd.randrange(len(specs))] if rnd.random() < 0.85 else specs[rnd.randrange(min(12, len(specs)))]
            with_grad = rnd.random() < (0.0 if burst else 0.3)
            nograd_ctx = (not with_grad) and rnd.random() < 0.3 and \
                rnd.choice(['no_grad', 'no_grad', 'inference_mode', 'set_grad_enabled'])   # autograd not recording
            strided = (not burst) and rnd.random() < 0.15                  # same values, non-contiguous arguments
            fresh = rnd.random() < (0.0 if burst else 0.05 if hot else 0.2)
            fault = cfg.get('faults') and rnd.random() < 0.08
            ev = {'thread': tid, 'k': k, 'spec': spec['id'], 'grad': with_grad, 'fresh': fresh, 'fault': bool(fault),
                  'no_grad_ctx': nograd_ctx, 'strided': strided}
            log(dict(ev, ev='call'))
            try:
                ad, constructed = get_module(spec, rnd, fresh)
                if fault:
                    inject.arm_fault(rnd.randrange(1, 60))
                try:
                    rec, arrays = evaluate(ad, spec, with_grad, nograd_ctx, strided,
                                           keep=kept[tid] if (k % 3 == 0 and not fault) else None)
                finally:
                    inject.disarm()
                verdict, detail = compare(spec, rec, arrays, with_grad)
                if strided and verdict in ('ulp', 'differs') and table.get(spec['id']) and 'raised' not in rec:
                    # a different memory layout may pick another kernel / summation order: for these calls
                    # equality is judged norm-wise at rounding level (C16's bound), not bit-wise
                    ref0 = np.load(os.path.join(WORK, 'ref-%d.json.npz' % spec['id']))
                    want = [ref0['a%d' % i] for i in range(len(ref0.files))]
                    if with_grad:
                        refg = np.load(os.path.join(WORK, 'ref-%d.json.g.npz' % spec['id']))
                        want += [refg['a%d' % i] for i in range(len(ref0.files), len(refg.files))]
                    if len(want) == len(arrays) and all(a.shape == w_.shape for a, w_ in zip(arrays, want)):
                        eps = float(np.finfo(arrays[0].dtype).eps)
                        bound = 64 * eps * max(1.0, ad.gain) ** 2 * 8.0
                        err = max([float(np.abs(a.astype(np.float64) - w_.astype(np.float64)).max()) for a, w_ in zip(arrays, want) if a.size] or [0.0])
                        verdict, detail = ('same', None) if err <= bound else ('differs', 'strided arguments: differs from the '
                                                                              'contiguous fresh reference by %.3e (bound %.3e)' % (err, bound))
                log(dict(ev, ev='return', verdict=verdict, detail=detail, raised=rec.get('raised'), constructed=constructed))
            except inject.InjectedFault as e:
                log(dict(ev, ev='return', verdict='faulted', detail=str(e)))
            except Exception as e:
                log(dict(ev, ev='return', verdict='error', detail='%s: %s' % (type(e).__name__, e)))
    kept = {i: [] for i in range(max(1, nthreads))}     # returned tensors re-examined at the end of the history
    t0 = time.time()
    if nthreads == 1:
        worker(0)
    else:
        ths = [threading.Thread(target=worker, args=(i,), name='hist-%d' % i) for i in range(nthreads)]
        for t in ths:
            t.start()
        for t in ths:
            t.join()
    # construction arguments stay the caller's: editing the filter arrays a module was built from must not
    # change what the module computes (single-threaded histories only)
    alias_checked = 0
    alias_bad = []
    if nthreads == 1 and not cfg.get('faults'):
        import pywt
        import pytorch_wavelets as pw
        import dtcwt.coeffs as dc
        w = pywt.Wavelet('db3')
        b_, q_ = dc.biort('near_sym_a'), dc.qshift('qshift_a')
        for dt in (torch.float64, torch.float32):
            npdt = np.float64 if dt == torch.float64 else np.float32
            builders = [
                ('DWTForward', lambda a: pw.DWTForward(J=2, wave=(a[0], a[1]), mode='zero'), [w.dec_lo, w.dec_hi], [2, 2, 12, 12], False),
                ('DWT1DForward', lambda a: pw.DWT1DForward(J=2, wave=(a[0], a[1]), mode='zero'), [w.dec_lo, w.dec_hi], [2, 2, 24], False),
                ('DWTInverse', lambda a: pw.DWTInverse(wave=(a[0], a[1]), mode='zero'), [w.rec_lo, w.rec_hi], [2, 2, 12, 12], True),
                ('DWT1DInverse', lambda a: pw.DWT1DInverse(wave=(a[0], a[1]), mode='zero'), [w.rec_lo, w.rec_hi], [2, 2, 24], True),
                ('DTCWTForward', lambda a: pw.DTCWTForward(biort=(a[0], a[1]), qshift=(a[2], a[3], a[4], a[5]), J=2),
                 [b_[0], b_[2], q_[0], q_[1], q_[4], q_[5]], [1, 2, 8, 8], False),
            ]
            for name, ctor, taps, shape, inverse in builders:
                arrs_ = [np.array(t, dtype=npdt) for t in taps]
                with clock:
                    with util.default_dtype(dt):
                        m_ = ctor(arrs_)
                before = {k_: v_.detach().clone() for k_, v_ in m_.state_dict().items()}
                for a_ in arrs_:
                    a_ *= -2.0
                alias_checked += 1
                ch = [k_ for k_, v_ in m_.state_dict().items() if not torch.equal(v_, before[k_])]
                if ch:
                    alias_bad.append('%s (%s): buffers %s follow later edits of the caller filter arrays' % (name, dt, ch))
    # late check: tensors returned earlier must still hold what they held when they were returned
    late_checked, late_bad = 0, []
    for tid, lst in kept.items():
        for digs, outs in lst:
            late_checked += 1
            now = [tinfo(o)['digest'] for o in outs]
            if now != digs:
                late_bad.append({'thread': tid, 'detail': 'a tensor returned earlier in the history changed its contents afterwards'})
    generic = attach.drain()
    for ab in alias_bad[:5]:
        generic.append({'monitor': 'M-ALIAS', 'where': 'construction', 'detail': ab, 'thread': 'hist-0'})
    for lb in late_bad[:5]:
        generic.append({'monitor': 'M-HIST.late', 'where': 'returned tensors', 'detail': lb['detail'], 'thread': str(lb['thread'])})
    sig = hashlib.sha1(json.dumps([(e['thread'], e['spec'], e['ev']) for e in events]).encode()).hexdigest()[:16]
    overlaps = 0
    open_calls = set()
    for e in events:
        if e['ev'] == 'call':
            if open_calls:
                overlaps += 1
            open_calls.add((e['thread'], e['k']))
        else:
            open_calls.discard((e['thread'], e['k']))
    cache = None
    try:
        import pytorch_wavelets.dtcwt.coeffs as coeffs
        cache = {'keys': sorted(coeffs.COEFF_CACHE.keys()), 'events': len(getattr(coeffs.COEFF_CACHE, 'events', []))}
    except Exception:
        pass
    json.dump({'cfg': cfg, 'events': events, 'generic': generic, 'signature': sig, 'overlapping_calls': overlaps,
               'late_checked': late_checked, 'alias_checked': alias_checked, 'inject': inject.stats(), 'monitor_counts': dict(attach.COUNTS), 'mutating_ops': dict(attach.MUTATING),
               'ops_seen': int(sum(attach.CENSUS.values())), 'cache': cache, 'wall': time.time() - t0},
              open(out, 'w'), default=str)


# ---- driver ---------------------------------------------------------------------------------------

CRASH_RETRIES = []


def _run(cmd, env, timeout, log):
    # A process killed by a signal (seen once in ~60 runs: SIGSEGV inside the interpreter / torch in an
    # 8-thread history under line-event injection, not reproducible with the same seed) has decided nothing;
    # the same history is run again, at most twice, and the crash is counted in the evidence.  A second and
    # third crash leave the history inconclusive.
    try:
        for attempt in range(3):
            with open(log, 'w' if attempt == 0 else 'a') as lf:
                p = subprocess.run(cmd, cwd=core.VERIF, env=env, stdout=lf, stderr=subprocess.STDOUT, timeout=timeout)
            if p.returncode >= 0:
                break
            CRASH_RETRIES.append({'cmd': cmd[3:5], 'signal': -p.returncode, 'attempt': attempt})
        return 'exit %d' % p.returncode
    except subprocess.TimeoutExpired:
        return 'timeout'


def driver(tier, seed, t0):
    global WORK
    WORK = core.private_workdir(PROP)
    specs = pool(seed, tier)
    specfile = os.path.join(WORK, 'specs.json')
    json.dump(specs, open(specfile, 'w'))
    env = dict(os.environ)
    env.update({'VERIF_C15_WORK': WORK, 'VERIF_SEED': str(seed), 'VERIF_REPO': core.repo_path(), core.GUARD: '1', 'OMP_NUM_THREADS': '1',
                'MKL_NUM_THREADS': '1', 'PYTHONHASHSEED': env.get('PYTHONHASHSEED', '0'),
                'PYTHONPATH': core.repo_path() + os.pathsep + core.VERIF + os.pathsep + env.get('PYTHONPATH', '')})
    me = [sys.executable, '-m', 'vf.props.c15']
    results = []
    # 1. reference table: one fresh process per spec
    with ThreadPoolExecutor(16) as ex:
        futs = {s['id']: ex.submit(_run, me + ['ref', specfile, str(s['id']), os.path.join(WORK, 'ref-%d.json' % s['id'])],
                                   env, 300, os.path.join(WORK, 'ref-%d.log' % s['id'])) for s in specs}
        refstate = {k: f.result() for k, f in futs.items()}
    nref = sum(1 for s in specs if os.path.exists(os.path.join(WORK, 'ref-%d.json' % s['id'])))
    for k, st in refstate.items():
        if st != 'exit 0':
            results.append(res(INCONCLUSIVE, {'spec': k}, 'reference', 'reference process: %s' % st))
    # the declared "raises" specs must raise in the fresh process too (sanity of the pool)
    # 2. histories
    if tier == 'quick':
        plan = [(1, 120, False), (2, 60, False), (4, 40, False), (8, 24, False), (16, 14, False), (4, 40, True)]
        reps = 2
    else:
        plan = [(1, 400, False), (2, 200, False), (4, 120, False), (8, 80, False), (16, 50, False),
                (1, 200, True), (4, 100, True), (8, 60, True), (16, 40, True)]
        reps = 4
    hcfgs = []
    for r in range(reps):
        for (nt, nops, faults) in plan:
            hcfgs.append({'threads': nt, 'ops': nops, 'faults': faults, 'seed': seed * 100 + len(hcfgs),
                          'p_yield': [0.01, 0.05, 0.2, 0.0][len(hcfgs) % 4], 'inject': True})
    # hot histories: the configurations are cut into groups of 4 neighbours (near-colliding by
    # construction of the pool) and each group is hammered by 8 threads sharing the module instances
    ncfg = 1 + max(s['cfg_id'] for s in specs)
    groups = [list(range(g, min(g + 4, ncfg))) for g in range(0, ncfg, 4)]
    for gi, grp in enumerate(groups):
        for rep in range(1 if tier == 'quick' else 3):
            hcfgs.append({'threads': 8, 'ops': 24 if tier == 'quick' else 60, 'faults': False, 'seed': seed * 100 + 50 + len(hcfgs),
                          'p_yield': [0.05, 0.2, 0.0][(gi + rep) % 3], 'inject': True, 'focus': grp})
    for gi, grp in enumerate(groups):
        hcfgs.append({'threads': 6, 'ops': 8 if tier == 'quick' else 25, 'faults': False, 'seed': seed * 100 + 90 + len(hcfgs),
                      'p_yield': [0.1, 0.0, 0.3][gi % 3], 'inject': True, 'focus': grp, 'burst': True})
    with ThreadPoolExecutor(14) as ex:
        futs = []
        for i, hc in enumerate(hcfgs):
            out = os.path.join(WORK, 'hist-%d.json' % i)
            futs.append((i, hc, out, ex.submit(_run, me + ['hist', specfile, json.dumps(hc), out], env,
                                                900 if tier == 'quick' else 2400, os.path.join(WORK, 'hist-%d.log' % i))))
        hist = [(i, hc, out, f.result()) for i, hc, out, f in futs]
    # 3. offline checking of the recorded histories
    sigs, yields, faults, lines, overlaps, events_total, threads_seen = set(), 0, 0, 0, 0, 0, set()
    mcounts, mut = {}, {}
    cache_keys = set()
    for i, hc, out, st in hist:
        if not os.path.exists(out):
            results.append(res(INCONCLUSIVE, {'history': i, 'cfg': hc}, 'M-HIST', 'history process: %s' % st))
            continue
        d = json.load(open(out))
        sigs.add(d['signature'])
        yields += d['inject']['yields']
        faults += d['inject']['faults']
        lines += d['inject']['lines']
        overlaps += d['overlapping_calls']
        events_total += len(d['events'])
        threads_seen.add(hc['threads'])
        for k, v in d['monitor_counts'].items():
            mcounts[k] = mcounts.get(k, 0) + v
        for k, v in d['mutating_ops'].items():
            mut[k] = mut.get(k, 0) + v
        if d.get('cache'):
            cache_keys.update(d['cache']['keys'])
        calls = {}
        faulted_before = {}
        for e in d['events']:
            key = (e['thread'], e['k'])
            if e['ev'] == 'call':
                calls[key] = e
                continue
            case = {'history': i, 'threads': hc['threads'], 'hist_seed': hc['seed'], 'faults': hc['faults'], 'thread': e['thread'],
                    'position': e['k'], 'spec': specs[e['spec']], 'grad': e['grad'], 'fresh_module': e['fresh']}
            v = e['verdict']
            if v == 'same':
                results.append(res(HELD, case, 'M-HIST', ratio=0.0))
            elif v == 'ulp':
                results.append(res(INCONCLUSIVE, case, 'M-HIST', 'rounding-level divergence: %s' % e['detail']))
            elif v == 'differs':
                results.append(res(VIOLATED, case, 'M-HIST', e['detail'], history_file=out))
            elif v == 'faulted':
                results.append(res(core.SKIPPED, case, 'M-HIST', 'call aborted by an injected exception (%s); later calls are still compared' % e['detail']))
            elif v == 'noref':
                results.append(res(INCONCLUSIVE, case, 'M-HIST', 'no reference entry'))
            else:
                results.append(res(VIOLATED, case, 'M-HIST', 'call failed in the history but not in the fresh process: %s' % e['detail'],
                                   history_file=out))
        seen = set()
        for g in d['generic']:
            k = (g['monitor'], g['where'], str(g['detail'])[:100])
            if k in seen:
                continue
            seen.add(k)
            results.append(res(VIOLATED, {'history': i, 'threads': hc['threads'], 'hist_seed': hc['seed'], 'where': g['where'],
                                          'thread': g['thread']}, g['monitor'], g['detail'], history_file=out))
        if d.get('late_checked'):
            mcounts['M-HIST.late'] = mcounts.get('M-HIST.late', 0) + d['late_checked']
            if not any(g['monitor'] == 'M-HIST.late' for g in d['generic']):
                results.append(res(HELD, {'history': i, 'threads': hc['threads'], 'returned_tensors_reexamined': d['late_checked']},
                                   'M-HIST.late', 'contents unchanged at the end of the history', ratio=0.0))
        if d.get('alias_checked'):
            mcounts['M-ALIAS'] = mcounts.get('M-ALIAS', 0) + d['alias_checked']
            if not any(g['monitor'] == 'M-ALIAS' for g in d['generic']):
                results.append(res(HELD, {'history': i, 'modules_built_from_caller_arrays': d['alias_checked']}, 'M-ALIAS',
                                   'buffers independent of the caller arrays', ratio=0.0))
        for m in ('M-ARG', 'M-INV', 'M-DISP', 'M-CACHE', 'M-GLOBAL'):
            n = d['monitor_counts'].get(m, 0)
            bad = sum(1 for g in d['generic'] if g['monitor'].startswith(m))
            if n and not bad:
                results.append(res(HELD, {'history': i, 'threads': hc['threads'], 'monitor_evaluations': n}, m,
                                   '%d evaluations, silent' % n, ratio=0.0))
    suite = None
    if tier == 'thorough':
        # the repository's own suite, observed by the attached monitors
        sout = os.path.join(WORK, 'suite.json')
        env2 = dict(env)
        env2['VERIF_PLUGIN_OUT'] = sout
        tests = ['tests/test_dwt.py', 'tests/test_dwt1d.py', 'tests/test_dtcwt.py', 'tests/test_scatnet_fwd.py']
        try:
            with open(os.path.join(WORK, 'suite.log'), 'w') as lf:
                subprocess.run([sys.executable, '-m', 'pytest', '-q', '-p', 'no:cacheprovider', '-p', 'vf.pytest_plugin',
                                '-n', '8', '--timeout=1800'] + tests, cwd=core.repo_path(), env=env2, stdout=lf,
                               stderr=subprocess.STDOUT, timeout=3000)
        except subprocess.TimeoutExpired:
            results.append(res(INCONCLUSIVE, {'suite': tests}, 'suite', 'repository suite under monitors timed out'))
        suite = {'counts': {}, 'ops': 0, 'violations': 0, 'workers': 0}
        for f in os.listdir(WORK):
            if f.startswith('suite.json.'):
                d = json.load(open(os.path.join(WORK, f)))
                suite['workers'] += 1
                suite['ops'] += d['ops']
                for k, v in d['counts'].items():
                    suite['counts'][k] = suite['counts'].get(k, 0) + v
                seen = set()
                for g in d['records']:
                    k = (g['monitor'], g['where'], g.get('test'))
                    if k in seen or g['monitor'] in ('M-SHAPE.dtype', 'M-DISP.precision'):
                        continue
                    seen.add(k)
                    suite['violations'] += 1
                    results.append(res(VIOLATED, {'repo_test': g.get('test'), 'where': g['where']}, g['monitor'] + '@suite',
                                       g['detail']))
        if suite['workers'] and suite['counts'].get('M-ARG', 0):
            results.append(res(HELD, {'suite': tests, 'monitor_evaluations': suite['counts']}, 'M-ARG@suite',
                               'repository suite observed: %d M-ARG evaluations' % suite['counts']['M-ARG'], ratio=0.0))
        elif not any(r['monitor'] == 'suite' for r in results):
            results.append(res(INCONCLUSIVE, {'suite': tests}, 'suite', 'no monitor output from the repository suite run'))
    extra = {'processes_killed_by_a_signal_and_rerun': list(CRASH_RETRIES),
             'repository_suite_under_monitors': suite, 'call_specs': len(specs), 'reference_entries_from_fresh_processes': nref, 'histories': len(hist),
             'events_recorded': events_total, 'thread_counts': sorted(threads_seen),
             'distinct_schedule_signatures': len(sigs), 'calls_started_while_another_was_open': overlaps,
             'library_lines_observed_by_injector': lines, 'yields_injected': yields, 'faults_injected': faults,
             'attached_monitor_evaluations': mcounts, 'mutating_aten_ops_seen': mut, 'coeff_cache_keys_observed': sorted(cache_keys)}
    min_held = 400 if tier == 'quick' else 4000
    rc = core.finish(PROP, tier, seed, results, t0, RULE, ASSUMPTIONS, min_held, extra_cov=extra,
                     nontrivial=lambda r: r['monitor'] == 'M-HIST')
    if rc == 0 and (mcounts.get('M-ARG', 0) == 0 or mcounts.get('M-DISP', 0) == 0):
        print('INCONCLUSIVE property=%s reason=attached monitors were never evaluated' % PROP)
        return 2
    return rc


def run_cell(cell, seed):
    """replay: re-run the history that contained the violating call"""
    raise RuntimeError('C15 replays are whole histories: see the history_file named in the replay record and re-run '
                       'python -m vf.props.c15 hist <specs.json> <cfg json> <out>')


if __name__ == '__main__':
    if sys.argv[1] == 'ref':
        ref_main(*sys.argv[2:5])
    elif sys.argv[1] == 'hist':
        hist_main(*sys.argv[2:5])
