"""C13 - the stationary wavelet transform equals pywt.swt2 and is shift-equivariant.

Monitor M-REF on SWTForward: a list of J tensors (N,C,4,H,W) equal to pywt.swt2 (A,H,V,D per level,
level-j filters dilated by 2^(j-1)); M-SHIFT: circularly shifting the input shifts every band by
the same amount (checked for every shift of a small image and sampled shifts of larger ones);
M-DISP.linear: taint certificate.
"""
import numpy as np
from .. import core, refs, util
from ..core import res, HELD, VIOLATED, INCONCLUSIVE

PROP = 'C13'
RULE = ('cells = (wavelet, J in 1..3, HxW multiples of 2^J incl. non-square and smaller than the '
        'dilated filter, mode in {constructor default, periodization, periodic}); per cell the impulse '
        'batch (whole operator) + dense inputs vs pywt.swt2, and circular shifts; distinct by (cell, '
        'input kind / shift); non-trivial when the input is not all-zero'
        '; N, C incl. 4 and 32..64; one input class inside torch.no_grad(); reload histories')
ASSUMPTIONS = ['pywt.swt2 (periodic boundary) is the specification', 'float64', 'sides <= 48, J <= 3']
TIMEOUT = {'quick': 900, 'thorough': 3000}
WORKER_BUDGET = {'quick': 600, 'thorough': 2400}
MIN_HELD = {'quick': 200, 'thorough': 54259}


def cells(tier, seed):
    rnd = core.rng_for(seed, PROP, tier)
    out = []
    reps = 2 if tier == 'quick' else 300
    for w in refs.all_wavelets():
        for _ in range(reps):
            J = rnd.choice([1, 2, 2, 3])
            m = 2 ** J
            sides = [s for s in range(m, 49, m)]
            small = [s for s in sides if s <= 16]
            h, wd = rnd.choice(small), rnd.choice(small)
            if rnd.random() < 0.3:
                h = rnd.choice(sides)
            out.append({'wave': w, 'J': J, 'shape': [h, wd], 'mode': rnd.choice(['default', 'periodization', 'periodic']),
                        'N': rnd.choice([1, 2, 4]), 'C': rnd.choice([1, 2, 3, 4])})
    for _ in range(4 if tier == 'quick' else 60):      # many channels / wide batches
        big = rnd.choice([32, 33, 64])
        N, C = (1, big) if rnd.random() < 0.7 else (big, 1)
        out.append({'wave': rnd.choice(['db2', 'sym4', 'bior2.2', 'haar', 'coif1']), 'J': 2, 'shape': [8, 12],
                    'mode': rnd.choice(['default', 'periodization', 'periodic']), 'N': N, 'C': C})
    rnd.shuffle(out)
    return out


def build(cell):
    import torch
    from pytorch_wavelets.dwt.transform2d import SWTForward
    with util.default_dtype(torch.float64):
        if cell['mode'] == 'default':
            return SWTForward(J=cell['J'], wave=cell['wave'])
        return SWTForward(J=cell['J'], wave=cell['wave'], mode=cell['mode'])


def run_cell(cell, seed):
    import torch
    out = []
    ok, mod = util.call_lib(build, cell)
    if not ok:
        return [res(VIOLATED, {'cell': cell, 'input': 'construct'}, 'M-REF', 'constructor raised %r' % (mod,))]
    sp, J = cell['shape'], cell['J']
    G = refs.l1gain(cell['wave']) ** (2 * J)
    rnd = core.rng_for(seed, PROP, 'k', str(cell))
    kinds = (['impulse'] if sp[0] * sp[1] <= 256 else []) + ['randn', rnd.choice(['dynrange', 'const', 'alt', 'outlier', 'ramp'])]
    for kind in kinds:
        case = {'cell': cell, 'input': kind}
        x = util.impulses(sp) if kind == 'impulse' else util.make_input(kind, [cell['N'], cell['C']] + sp, seed)
        xn = util.np64(x)
        tol = 1e-11 * G * max(float(np.abs(xn).max()), 1e-300)
        # one input class inside torch.no_grad(), one with the module in eval() mode
        ok, y = util.call_lib_nograd(mod, x) if kind == 'randn' else util.call_lib(mod, x) if kind == 'impulse' else \
            util.call_lib_eval(mod, x)
        if not ok:
            out.append(res(VIOLATED, case, 'M-REF', 'library raised %r' % (y,)))
            continue
        try:
            ref = refs.swt2(xn, cell['wave'], J)
        except Exception as e:
            out.append(res(INCONCLUSIVE, case, 'M-REF', 'pywt raised %r' % (e,)))
            continue
        if not isinstance(y, (list, tuple)) or len(y) != J:
            out.append(res(VIOLATED, case, 'M-SHAPE', 'expected a list of %d tensors' % J))
            continue
        okc, d, ratio = util.compare_many([('level %d' % (j + 1), y[j], ref[j]) for j in range(J)], tol)
        out.append(res(HELD, case, 'M-REF', ratio=ratio) if okc else res(VIOLATED, case, 'M-REF', d, ratio=ratio))
    # history: overwrite the filter buffers in place with other taps of the same length, use again
    from . import c01
    other = c01.same_length_other(cell['wave'])
    if other is not None:
        cell2 = dict(cell, wave=other, reloaded_from=cell['wave'])
        mod2 = build(cell)
        xr = util.make_input('randn', [cell['N'], cell['C']] + sp, seed + 77)
        if util.call_lib(mod2, xr)[0]:
            ok, y = util.call_lib(mod2, xr) if util.reload_in_place(mod2, build(cell2)) else (False, 'in-place reload refused')
            case = {'cell': cell2, 'input': 'reload-randn'}
            if not ok:
                out.append(res(VIOLATED, case, 'M-REF', 'library raised %r after an in-place filter reload' % (y,)))
            else:
                ref = refs.swt2(util.np64(xr), other, J)
                tol = 1e-11 * refs.l1gain(other) ** (2 * J) * float(xr.abs().max())
                okc, d, ratio = util.compare_many([('level %d' % (j + 1), y[j], ref[j]) for j in range(min(J, len(y)))], tol)
                out.append(res(HELD, case, 'M-REF', ratio=ratio) if okc and len(y) == J else
                           res(VIOLATED, case, 'M-REF', d or 'wrong number of levels', ratio=ratio))
    # shift equivariance
    x = util.make_input('randn', [1, cell['C']] + sp, seed + 5)
    ok, y0 = util.call_lib(mod, x)
    if ok and isinstance(y0, (list, tuple)) and len(y0) == J and all(t.dim() == 5 for t in y0):
        if sp[0] * sp[1] <= 64:
            shifts = [(a, b) for a in range(sp[0]) for b in range(sp[1])]
        else:
            shifts = [(rnd.randrange(sp[0]), rnd.randrange(sp[1])) for _ in range(6)] + [(1, 0), (0, 1)]
        xs = torch.cat([torch.roll(x, s, dims=(2, 3)) for s in shifts], dim=0)
        ok, ys = util.call_lib(mod, xs)
        tol = 64 * util.EPS64 * G * float(x.abs().max())
        if not ok:
            out.append(res(VIOLATED, {'cell': cell, 'input': 'shifts'}, 'M-SHIFT', 'library raised %r' % (ys,)))
        else:
            worst, fail = 0.0, None
            for i, s in enumerate(shifts):
                for j in range(J):
                    want = torch.roll(y0[j], s, dims=(3, 4))
                    okc, d, ratio = util.compare('shift %s level %d' % (s, j + 1), ys[j][i:i + 1], util.np64(want), tol)
                    worst = max(worst, ratio)
                    if not okc and fail is None:
                        fail = d
            case = {'cell': cell, 'input': 'shifts', 'n_shifts': len(shifts)}
            out.append(res(HELD, case, 'M-SHIFT', ratio=worst) if fail is None else
                       res(VIOLATED, case, 'M-SHIFT', fail, ratio=worst))
        # certificate
        z = torch.zeros_like(x)
        st, detail, info = util.linear_certificate(lambda t: mod(t), [x], [z])
        case = {'cell': cell, 'input': 'certificate'}
        out.append(res(HELD, case, 'M-DISP.linear', info) if st == 'certified' else
                   res(INCONCLUSIVE, case, 'M-DISP.linear', '%s: %s' % (st, detail)))
    return out


def nontrivial(r):
    return r['monitor'] in ('M-REF', 'M-SHIFT')


def extra_cov(results, meta):
    w = set(r['case']['cell']['wave'] for r in results if r['case'].get('cell'))
    modes = {}
    for r in results:
        c = r['case'].get('cell')
        if c and r['monitor'] == 'M-REF':
            modes[c['mode']] = modes.get(c['mode'], 0) + 1
    return {'wavelets_covered': len(w), 'by_mode': modes,
            'shifted_executions': sum(r['case'].get('n_shifts', 0) for r in results)}
