"""C02 - DWT perfect reconstruction (1-D and 2-D).

Monitor M-RT (round-trip): the inverse is fed the very objects the observed forward call
returned; its result, cropped to the input extent, is compared with the recorded input.
Shape rule: output extent is the input extent, plus at most one trailing sample on odd axes.
Tolerance: 1e-10 * gain_A * gain_S * max|x| + 10 * (PyWavelets' own round-trip error on x),
so approximately-PR wavelets (dmey) are judged against pywt's own error.
Impulse batches give S*A = I on the signal extent for the whole cell.
"""
import numpy as np
from .. import core, refs, util
from ..core import res, HELD, VIOLATED, INCONCLUSIVE
from . import c01

PROP = 'C02'
RULE = ('cells as in C01 (all 106 wavelets x 5 modes x hostile sizes x J); per cell the impulse batch '
        '(S*A=I for the whole cell) and dense / dynamic-range / structured inputs are sent through '
        'forward then inverse; distinct by (cell, input kind); non-trivial when the forward returned '
        'and the input is not all-zero'
        '; user-defined banks excluded (no perfect-reconstruction pair); the same round trip through a float32-built .double() pair and a float64-built .float() pair at float32 tap precision; wave argument forms and autograd contexts as in C01')
ASSUMPTIONS = ['float64', 'pywt own round-trip error bounds the error allowed for approximately-PR wavelets',
               'sizes bounded as in C01']
TIMEOUT = {'quick': 900, 'thorough': 3000}
WORKER_BUDGET = {'quick': 600, 'thorough': 2400}
MIN_HELD = {'quick': 300, 'thorough': 23923}


def cells(tier, seed):
    # (user-defined random banks are not perfect-reconstruction pairs: outside C02)
    out = [c for c in c01.cells(tier, seed + 2000) if not c.get('custom')]
    # mode names known to the library's mode codes but refused by the filter banks on this tree ('constant',
    # 'replicate'): out of scope as long as the forward refuses them, in scope as soon as it returns
    rnd = core.rng_for(seed, PROP, tier, 'extra-modes')
    for i in range(8 if tier == 'quick' else 80):
        m = ['constant', 'replicate'][i % 2]
        if i % 4 < 2:
            out.append({'dim': 1, 'wave': rnd.choice(['db2', 'db4', 'sym5', 'bior2.2']), 'mode': m, 'J': rnd.choice([1, 2]),
                        'shape': [rnd.choice([9, 16, 21])], 'N': 2, 'C': 2, 'extra_mode': True})
        else:
            out.append({'dim': 2, 'wave': rnd.choice(['db2', 'db4', 'sym5', 'bior2.2']), 'mode': m, 'J': rnd.choice([1, 2]),
                        'shape': [rnd.choice([8, 9, 12]), rnd.choice([7, 10])], 'N': 1, 'C': 2, 'extra_mode': True})
    return out


def build_inv(cell, dtype=None):
    import torch
    import pytorch_wavelets as pw
    with util.default_dtype(dtype or torch.float64):
        if cell['dim'] == 1:
            return pw.DWT1DInverse(wave=c01.wave_arg(cell, True), mode=c01.lib_mode(cell))
        return pw.DWTInverse(wave=c01.wave_arg(cell, True), mode=c01.lib_mode(cell))


def pywt_rt_error(cell, xn):
    try:
        if cell['dim'] == 1:
            yl, yh = refs.wavedec1(xn, cell['wave'], cell['mode'], cell['J'])
            r = refs.waverec1(yl, yh, cell['wave'], cell['mode'])
            r = r[..., :xn.shape[-1]]
        else:
            wr = cell.get('wave_row') or cell['wave']
            yl, yh = refs.wavedec2(xn, cell['wave'], wr, cell['mode'], cell['J'])
            r = refs.waverec2(yl, yh, cell['wave'], wr, cell['mode'])
            r = r[..., :xn.shape[-2], :xn.shape[-1]]
        return float(np.max(np.abs(r - xn)))
    except Exception:
        return None


def extra_mode_cell(cell, seed):
    case = {'cell': cell, 'input': 'randn'}
    sp = cell['shape']
    x = util.make_input('randn', [cell['N'], cell['C']] + sp, seed)
    ok, fwd = util.call_lib(c01.build, cell)
    ok, pyr = util.call_lib(fwd, x) if ok else (False, fwd)
    if not ok:
        return [res(core.SKIPPED, case, 'M-RT', 'the forward transform refuses this mode name: %s' % type(pyr).__name__)]
    ok, inv = util.call_lib(build_inv, cell)
    ok, y = util.call_lib(inv, pyr) if ok else (False, inv)
    if not ok:
        return [res(VIOLATED, case, 'M-RT', 'the forward transform returns in mode %r but the inverse raised %r' % (cell['mode'], y))]
    want = list(x.shape)
    got = list(y.shape)
    if not (len(got) == len(want) and got[:2] == want[:2] and all(g == w or (w % 2 == 1 and g == w + 1) for g, w in zip(got[2:], want[2:]))):
        return [res(VIOLATED, case, 'M-SHAPE', 'reconstruction shape %s for input %s' % (got, want))]
    sl = (slice(None), slice(None)) + tuple(slice(0, w) for w in want[2:])
    G = c01.total_gain(cell) * c01.total_gain(cell, True)
    okc, detail, ratio = util.compare('inverse(forward(x))', y[sl], util.np64(x), 1e-9 * G * float(x.abs().max()))
    return [res(HELD, case, 'M-RT', ratio=ratio) if okc else res(VIOLATED, case, 'M-RT', detail, ratio=ratio)]


def run_cell(cell, seed):
    if cell.get('extra_mode'):
        return extra_mode_cell(cell, seed)
    out = []
    fwd, inv = c01.build(cell), build_inv(cell)
    sp = cell['shape']
    Ls = c01.axis_flens(cell)
    lens = [c01.level_lengths(n, La, cell['mode'], cell['J']) for n, La in zip(sp, Ls)]
    kf = c01.KF_PER if any(c01.in_d7(l, La, cell['mode']) for l, La in zip(lens, Ls)) else None
    rnd = core.rng_for(seed, PROP, 'kinds', str(cell))
    kinds = ([] if cell.get('noimp') else ['impulse']) + \
        ['randn', rnd.choice(['dynrange', 'const', 'alt', 'outlier', 'ramp'])]
    G = c01.total_gain(cell) * c01.total_gain(cell, True)
    for kind in kinds:
        case = {'cell': cell, 'input': kind}
        x = util.impulses(sp) if kind == 'impulse' else util.make_input(kind, [cell['N'], cell['C']] + sp, seed)
        ok, pyr = util.call_lib(fwd, x)
        if not ok:
            # C02 quantifies over configurations on which the forward returns
            out.append(res(core.SKIPPED, case, 'M-RT', 'forward raised (outside C02: quantified over configurations on which the forward returns)'))
            continue
        ok, y = util.call_lib(inv, pyr)
        if not ok:
            out.append(res(VIOLATED, case, 'M-RT', 'inverse raised %r on the forward output' % (y,), kf_key=kf))
            continue
        want = list(x.shape)
        got = list(y.shape)
        shape_ok = len(got) == len(want) and got[:2] == want[:2] and all(
            g == w or (w % 2 == 1 and g == w + 1) for g, w in zip(got[2:], want[2:]))
        if not shape_ok:
            out.append(res(VIOLATED, case, 'M-SHAPE', 'reconstruction shape %s for input %s' % (got, want), kf_key=kf))
            continue
        sl = (slice(None), slice(None)) + tuple(slice(0, w) for w in want[2:])
        xn = util.np64(x)
        e = pywt_rt_error(cell, xn)
        if e is None:
            out.append(res(INCONCLUSIVE, case, 'M-RT', 'pywt round trip raised'))
            continue
        tol = 1e-10 * G * max(float(np.abs(xn).max()), 1e-300) + 10 * e
        okc, detail, ratio = util.compare('inverse(forward(x))', y[sl], xn, tol)
        out.append(res(HELD, case, 'M-RT', ratio=ratio, pywt_err=e) if okc else
                   res(VIOLATED, case, 'M-RT', detail, ratio=ratio, kf_key=kf))
    if cell.get('noimp') or int(np.prod(sp)) > 20000:
        return out
    # the same pair after the usual nn.Module precision conversion (built in float32 + .double(), built in
    # float64 + .float()): still the same wavelet.  Taps rounded to float32 at construction stay rounded, so
    # "up to rounding" is float32 tap precision here (as in C04).
    import torch
    for bdt, conv, dt, eps in ((torch.float32, 'double', torch.float64, 1e-6), (torch.float64, 'float', torch.float32, 2e-4)):
        case = {'cell': cell, 'input': 'randn', 'modules': 'built %s, converted with .%s()' % (str(bdt).replace('torch.', ''), conv)}
        try:
            f2, i2 = getattr(c01.build(cell, bdt), conv)(), getattr(build_inv(cell, bdt), conv)()
        except Exception as e_:
            out.append(res(VIOLATED, case, 'M-RT', 'conversion raised %r' % (e_,)))
            continue
        x = util.make_input('randn', [cell['N'], cell['C']] + sp, seed + 5, dt)
        ok, pyr = util.call_lib(f2, x)
        if not ok:
            out.append(res(core.SKIPPED, case, 'M-RT', 'forward raised (outside C02)'))
            continue
        ok, y = util.call_lib(i2, pyr)
        if not ok:
            out.append(res(VIOLATED, case, 'M-RT', 'inverse raised %r on the forward output' % (y,), kf_key=kf))
            continue
        want, got = list(x.shape), list(y.shape)
        if not (len(got) == len(want) and got[:2] == want[:2] and all(
                g == w or (w % 2 == 1 and g == w + 1) for g, w in zip(got[2:], want[2:]))) or y.dtype != dt:
            out.append(res(VIOLATED, case, 'M-SHAPE', 'reconstruction %s %s for input %s %s' % (got, y.dtype, want, dt), kf_key=kf))
            continue
        sl = (slice(None), slice(None)) + tuple(slice(0, w) for w in want[2:])
        xn = util.np64(x)
        e = pywt_rt_error(cell, xn)
        if e is None:
            continue
        tol = eps * G * max(float(np.abs(xn).max()), 1e-300) + 10 * e
        okc, detail, ratio = util.compare('inverse(forward(x))', y[sl], xn, tol)
        out.append(res(HELD, case, 'M-RT', ratio=ratio, pywt_err=e) if okc else
                   res(VIOLATED, case, 'M-RT', detail, ratio=ratio, kf_key=kf))
    return out


def nontrivial(r):
    return r['monitor'] == 'M-RT'


def extra_cov(results, meta):
    d = c01.extra_cov([dict(r, monitor='M-REF') for r in results if r['monitor'] == 'M-RT'], meta)
    d.pop('cells_certified_linear', None)
    d.pop('allowed_reflect_raises_observed', None)
    d['max_pywt_own_roundtrip_error'] = max([r.get('pywt_err', 0.0) for r in results] or [0.0])
    return d
