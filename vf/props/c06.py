"""C06 - DTCWT back-propagation is the exact adjoint.

Monitor M-JAC (module level): the operator of DTCWTForward / DTCWTInverse for a configuration
(filter pair, J, size, (o_dim, ri_dim) layout, skip mask, include_scale mask) is extracted from
forward executions on impulses (one-hot pyramids for the inverse); the full autograd Jacobian is
obtained from ONE batched backward execution with unit cotangents (cotangents also fed into every
returned intermediate lowpass) at a random point and at the origin and compared entry-wise.
Every requires-grad pattern over (yl, yh_1..yh_J) of the inverse is executed with random cotangents.
Monitor M-FN (Function level): every FWD_J1 / FWD_J2PLUS / INV_J1 / INV_J2PLUS.backward invocation
observed is compared with torch's native VJP of the same Function's forward body.
"""
import itertools
import numpy as np
from .. import core, refs, util
from ..core import res, HELD, VIOLATED, INCONCLUSIVE

PROP = 'C06'
RULE = ('cells = (direction, filter pair from the 20 named pairs, J in 1..3, HxW from 4..14 incl. odd / '
        'non-multiple-of-4 / non-square, (o_dim, ri_dim) from all 120 ordered pairs, skip mask, include mask); '
        'per cell: operator from impulse executions, full Jacobian by one batched backward at two points, '
        'all requires-grad patterns of the inverse; distinct by (cell, check, pattern)')
ASSUMPTIONS = ['float64; tolerance 1e-11 * gain * max|g|', 'torch native autograd is trusted for plain torch code']
TIMEOUT = {'quick': 900, 'thorough': 3300}
WORKER_BUDGET = {'quick': 600, 'thorough': 2700}
MIN_HELD = {'quick': 300, 'thorough': 37535}
HS = [4, 5, 6, 7, 8, 10, 12, 14]
WS = [4, 6, 8, 9, 10, 12]
PAIRS = [(o, r) for o in range(-6, 6) for r in range(-6, 6) if o % 6 != r % 6]


def cells(tier, seed):
    rnd = core.rng_for(seed, PROP, tier)
    out = []
    reps = 4 if tier == 'quick' else 600
    lay = list(PAIRS)
    rnd.shuffle(lay)
    k = 0
    for b in refs.BIORTS:
        for q in refs.QSHIFTS:
            for i in range(reps):
                J = rnd.choice([1, 2, 2, 3])
                o, r = lay[k % len(lay)] if rnd.random() < 0.7 else (2, -1)
                k += 1
                direction = 'forward' if i % 2 == 0 else 'inverse'
                c = {'dir': direction, 'biort': b, 'qshift': q, 'J': J, 'shape': [rnd.choice(HS), rnd.choice(WS)],
                     'o': o, 'r': r}
                if direction == 'forward':
                    c['skip'] = [rnd.random() < 0.25 for _ in range(J)]
                    c['include'] = [rnd.random() < 0.4 for _ in range(J)] if rnd.random() < 0.5 else [False] * J
                if rnd.random() < 0.25:
                    c['mode'] = 'zero'           # the padding-mode option (level-1 filters pad with zeros)
                out.append(c)
    rnd.shuffle(out)
    if tier == 'thorough':
        out.insert(0, {'suite': True, 'dir': 'suite', 'biort': '-', 'qshift': '-', 'J': 0, 'shape': [], 'o': 2, 'r': -1})
    return out


def batch_axis(o, r):
    o6, r6 = o % 6, r % 6
    return min(i for i in range(6) if i not in (o6, r6))


def layout_perm(o, r):
    """perm such that default.permute(perm) has the (o, r) layout; names: N C O H W RI"""
    o6, r6 = o % 6, r % 6
    src = {'N': 0, 'C': 1, 'O': 2, 'H': 3, 'W': 4, 'RI': 5}
    names = [None] * 6
    names[o6], names[r6] = 'O', 'RI'
    rest = iter(['N', 'C', 'H', 'W'])
    for i in range(6):
        if names[i] is None:
            names[i] = next(rest)
    return [src[n] for n in names]


def to_default(t, o, r):
    if t.dim() != 6:
        return t
    perm = layout_perm(o, r)
    inv = [perm.index(i) for i in range(6)]
    return t.permute(*inv)


def from_default(t, o, r):
    if t.dim() != 6:
        return t
    return t.permute(*layout_perm(o, r))


def is_ph(t):
    return t is None or t.dim() == 0 or t.numel() == 0


def collect(y, o, r):
    """-> list of (tensor, batch axis) of the real (non-placeholder) outputs, fixed order"""
    yl, yh = y
    outs = []
    for t in (yl if isinstance(yl, (list, tuple)) else [yl]):
        if not is_ph(t):
            outs.append((t, 0))
    for t in yh:
        if not is_ph(t):
            outs.append((t, batch_axis(o, r)))
    return outs


def flat(outs, k, o, r):
    return np.concatenate([util.np64(to_default(t, o, r)).reshape(k, -1) for t, b in outs], axis=1)


def forward_dir(cell, seed):
    import torch
    import pytorch_wavelets as pw
    out = []
    o, r = cell['o'], cell['r']
    with util.default_dtype(torch.float64):
        mod = pw.DTCWTForward(biort=cell['biort'], qshift=cell['qshift'], J=cell['J'], o_dim=o, ri_dim=r,
                              skip_hps=cell['skip'], include_scale=cell['include'], mode=cell.get('mode', 'symmetric'))
    sp = cell['shape']
    n_in = sp[0] * sp[1]
    ok, y = util.call_lib(mod, util.impulses(sp))
    if not ok:
        return [res(VIOLATED, {'cell': cell}, 'M-JAC', 'forward raised %r' % (y,))]
    outs = collect(y, o, r)
    A = flat(outs, n_in, o, r).T                             # (n_out, n_in)
    n_out = A.shape[0]
    tol = 1e-11 * max(util.row_gain(A.T), 1.0)
    sizes = [int(np.prod(t.shape)) // n_in for t, b in outs]
    for point in ('random', 'origin'):
        case = {'cell': cell, 'check': 'jacobian', 'point': point}
        xb = (util.make_input('randn', [n_out, 1] + sp, seed) if point == 'random'
              else torch.zeros([n_out, 1] + sp, dtype=torch.float64)).requires_grad_(True)
        ok, yb = util.call_lib(mod, xb)
        if not ok:
            out.append(res(VIOLATED, case, 'M-JAC', 'forward raised %r' % (yb,)))
            continue
        ob = collect(yb, o, r)
        parts = torch.split(torch.eye(n_out, dtype=torch.float64), sizes, dim=1)
        cots = []
        for p, (t, b) in zip(parts, ob):
            shp = list(to_default(t, o, r).shape)
            cots.append(from_default(p.reshape(shp), o, r).contiguous())
        ok, g = util.call_lib(torch.autograd.grad, [t for t, b in ob], xb, cots, allow_unused=True)
        if not ok:
            out.append(res(VIOLATED, case, 'M-JAC', 'backward raised %r' % (g,)))
            continue
        if g[0] is None:
            out.append(res(VIOLATED, case, 'M-JAC', 'no gradient delivered to the input'))
            continue
        Jt = util.np64(g[0]).reshape(n_out, n_in)
        err = np.abs(Jt - A)
        ratio = float(err.max()) / tol
        if err.max() <= tol:
            out.append(res(HELD, case, 'M-JAC', ratio=ratio))
        else:
            k, n = np.unravel_index(int(err.argmax()), err.shape)
            out.append(res(VIOLATED, case, 'M-JAC', 'dY[%d]/dx[%d] = %.6g by autograd, %.6g in the forward operator '
                           '(max err %.3e)' % (k, n, Jt[k, n], A[k, n], err.max()), ratio=ratio))
    # dense cotangents, N=2, C=3
    case = {'cell': cell, 'check': 'dot'}
    x = util.make_input('randn', [2, 3] + sp, seed + 1).requires_grad_(True)
    ok, y = util.call_lib(mod, x)
    if ok:
        ob = collect(y, o, r)
        cots = [util.make_input('randn', list(t.shape), seed + 2 + i) for i, (t, b) in enumerate(ob)]
        ok, g = util.call_lib(torch.autograd.grad, [t for t, b in ob], x, cots, retain_graph=True)
        if not ok:
            out.append(res(VIOLATED, case, 'M-JAC', 'backward raised %r' % (g,)))
        else:
            gc = [util.np64(to_default(c_, o, r)).reshape(6, -1) for c_ in cots]
            gc = np.concatenate(gc, axis=1)
            want = (gc @ A).reshape(2, 3, *sp)
            okc, d, ratio = util.compare('x.grad vs A^T g', g[0], want, tol * float(np.abs(gc).max()) * 4)
            out.append(res(HELD, case, 'M-JAC', ratio=ratio) if okc else res(VIOLATED, case, 'M-JAC', d, ratio=ratio))
            # outputs scaled IN PLACE by the caller before back-propagating
            case3 = {'cell': cell, 'check': 'outputs modified in place before backward'}
            x3 = x.detach().clone().requires_grad_(True)
            ok3, y3 = util.call_lib(mod, x3)
            if ok3:
                ob3 = collect(y3, o, r)
                ok_edit, e3 = util.call_lib(lambda: [t.mul_(0.5) for t, b in ob3])
                g3 = e3
                if not ok_edit:
                    # torch itself refuses in-place edits of outputs that are views returned by a multi-output
                    # Function (a clear error for the caller, no wrong gradient): outside the property
                    out.append(res(core.SKIPPED, case3, 'M-JAC', 'torch refuses the in-place edit of a view output'))
                    ok3 = None
                else:
                    ok3, g3 = util.call_lib(torch.autograd.grad, [t for t, b in ob3], x3, cots)
                if ok3 is None:
                    pass
                elif not ok3:
                    out.append(res(VIOLATED, case3, 'M-JAC', 'in-place edit of the outputs, or the backward after it, raised %r' % (g3,)))
                else:
                    okc, d, ratio = util.compare('x.grad vs 0.5 * A^T g', g3[0], 0.5 * want, tol * float(np.abs(gc).max()) * 4)
                    out.append(res(HELD, case3, 'M-JAC', ratio=ratio) if okc else res(VIOLATED, case3, 'M-JAC', d, ratio=ratio))
            # a second cotangent, of magnitude 1e-10, pulled back through the same recorded graph
            case2 = {'cell': cell, 'check': 'second pull-back, tiny cotangent'}
            cots2 = [1e-10 * util.make_input('randn', list(t.shape), seed + 60 + i) for i, (t, b) in enumerate(ob)]
            ok, g2 = util.call_lib(torch.autograd.grad, [t for t, b in ob], x, cots2)
            if not ok:
                out.append(res(VIOLATED, case2, 'M-JAC', 'second backward through the same graph raised %r' % (g2,)))
            else:
                gc2 = np.concatenate([util.np64(to_default(c_, o, r)).reshape(6, -1) for c_ in cots2], axis=1)
                okc, d, ratio = util.compare('x.grad vs A^T g (|g| ~ 1e-10)', g2[0], (gc2 @ A).reshape(2, 3, *sp),
                                             tol * float(np.abs(gc2).max()) * 4)
                out.append(res(HELD, case2, 'M-JAC', ratio=ratio) if okc else res(VIOLATED, case2, 'M-JAC', d, ratio=ratio))
    return out


def inverse_dir(cell, seed):
    import torch
    import pytorch_wavelets as pw
    out = []
    o, r = cell['o'], cell['r']
    J = cell['J']
    sp = cell['shape']
    with util.default_dtype(torch.float64):
        fwd = pw.DTCWTForward(biort=cell['biort'], qshift=cell['qshift'], J=J, o_dim=o, ri_dim=r, mode=cell.get('mode', 'symmetric'))
        inv = pw.DTCWTInverse(biort=cell['biort'], qshift=cell['qshift'], o_dim=o, ri_dim=r, mode=cell.get('mode', 'symmetric'))
    ok, y = util.call_lib(fwd, torch.zeros([1, 1] + sp, dtype=torch.float64))
    if not ok:
        return [res(INCONCLUSIVE, {'cell': cell}, 'M-JAC', 'forward (for shapes) raised %r' % (y,))]
    shapes = [list(y[0].shape)] + [list(to_default(h, o, r).shape) for h in y[1]]   # default layout, batch 1
    sizes = [int(np.prod(s)) for s in shapes]
    ncoef = sum(sizes)
    offs = np.cumsum([0] + sizes)

    def batched(mat):
        """(K, ncoef) matrix -> list of K-batched argument tensors"""
        K = mat.shape[0]
        args = []
        for i, s_ in enumerate(shapes):
            t = mat[:, offs[i]:offs[i + 1]].reshape([K] + s_[1:])
            args.append(from_default(t, o, r).contiguous())
        return args
    eye = torch.eye(ncoef, dtype=torch.float64)
    ok, yi = util.call_lib(lambda a: inv((a[0], a[1:])), batched(eye))
    if not ok:
        return [res(VIOLATED, {'cell': cell}, 'M-JAC', 'inverse raised %r' % (yi,))]
    S = util.np64(yi).reshape(ncoef, -1).T                            # (n_out, ncoef)
    n_out = S.shape[0]
    osh = list(yi.shape[2:])
    tol = 1e-11 * max(util.row_gain(S.T), 1.0)
    for point in ('random', 'origin'):
        case = {'cell': cell, 'check': 'jacobian', 'point': point}
        mat = torch.randn(n_out, ncoef, generator=util.gen(seed, 'pt', str(cell)), dtype=torch.float64) \
            if point == 'random' else torch.zeros(n_out, ncoef, dtype=torch.float64)
        args = [a.requires_grad_(True) for a in batched(mat)]
        ok, yb = util.call_lib(inv, (args[0], args[1:]))
        if not ok:
            out.append(res(VIOLATED, case, 'M-JAC', 'inverse raised %r' % (yb,)))
            continue
        cot = torch.eye(n_out, dtype=torch.float64).reshape(n_out, 1, *osh)
        ok, g = util.call_lib(torch.autograd.grad, [yb], args, [cot], allow_unused=True)
        if not ok:
            out.append(res(VIOLATED, case, 'M-JAC', 'backward raised %r' % (g,)))
            continue
        if any(gi is None for gi in g):
            out.append(res(VIOLATED, case, 'M-JAC', 'no gradient delivered to argument(s) %s' % [
                i for i, gi in enumerate(g) if gi is None]))
            continue
        Jt = np.concatenate([util.np64(to_default(gi, o, r)).reshape(n_out, -1) for gi in g], axis=1)
        err = np.abs(Jt - S)
        ratio = float(err.max()) / tol
        if err.max() <= tol:
            out.append(res(HELD, case, 'M-JAC', ratio=ratio))
        else:
            k, n = np.unravel_index(int(err.argmax()), err.shape)
            out.append(res(VIOLATED, case, 'M-JAC', 'dy[%d]/dcoef[%d] = %.6g by autograd, %.6g in the synthesis '
                           'operator (max err %.3e)' % (k, n, Jt[k, n], S[k, n], err.max()), ratio=ratio))
    pats = [p for p in itertools.product([False, True], repeat=J + 1) if any(p)]
    for pat in pats:
        case = {'cell': cell, 'check': 'subset', 'requires_grad': list(pat)}
        mat = torch.randn(3, ncoef, generator=util.gen(seed, 'sub', str(cell)), dtype=torch.float64)
        args = [a.requires_grad_(bool(p)) for a, p in zip(batched(mat), pat)]
        ok, yb = util.call_lib(inv, (args[0], args[1:]))
        if not ok:
            out.append(res(VIOLATED, case, 'M-JAC.subset', 'inverse raised %r' % (yb,)))
            continue
        cot = util.make_input('randn', list(yb.shape), seed + 40)
        if sum(pat) % 2 == 0:
            cot = cot * 1e-10          # every cotangent, tiny ones included
            case['cotangent_scale'] = 1e-10
        want_args = [a for a, p in zip(args, pat) if p]
        ok, g = util.call_lib(torch.autograd.grad, [yb], want_args, [cot], allow_unused=True, retain_graph=True)
        if ok:
            ok, g = util.call_lib(torch.autograd.grad, [yb], want_args, [cot], allow_unused=True)   # second pull-back
        if not ok:
            out.append(res(VIOLATED, case, 'M-JAC.subset', 'backward raised %r' % (g,)))
            continue
        gc = util.np64(cot).reshape(3, -1)
        full = gc @ S
        fail, worst = None, 0.0
        gi = iter(g)
        for i, p in enumerate(pat):
            if not p:
                continue
            got = next(gi)
            name = 'yl' if i == 0 else 'yh[%d]' % (i - 1)
            if got is None:
                fail = fail or 'no gradient delivered to %s although it requires grad' % name
                continue
            gotm = util.np64(to_default(got, o, r)).reshape(3, -1)
            e = float(np.abs(gotm - full[:, offs[i]:offs[i + 1]]).max())
            t_ = tol * float(np.abs(gc).max()) * 4
            worst = max(worst, e / t_)
            if e > t_ and fail is None:
                fail = 'gradient of %s differs from S^T g by %.3e' % (name, e)
        out.append(res(HELD, case, 'M-JAC.subset', ratio=worst) if fail is None else
                   res(VIOLATED, case, 'M-JAC.subset', fail, ratio=worst))
    return out


# ---- Function-level monitor --------------------------------------------------------------------
_FN = {'log': [], 'installed': False}


class _Ctx:
    needs_input_grad = (True,) * 12

    def save_for_backward(self, *a):
        self.saved_tensors = a


def install_function_monitor():
    if _FN['installed']:
        return
    import torch
    from pytorch_wavelets.dtcwt import transform_funcs as tf

    def wrap(cls, n_diff):
        orig_fwd, orig_bwd = cls.forward, cls.backward

        def forward(ctx, *args):
            ctx._verif_args = tuple(a.detach() if isinstance(a, torch.Tensor) else a for a in args)
            return orig_fwd(ctx, *args)

        def backward(ctx, *grads):
            ret = orig_bwd(ctx, *grads)
            try:
                judge(cls, orig_fwd, ctx, grads, ret, n_diff)
            except Exception as e:
                _FN['log'].append({'cls': cls.__name__, 'status': 'inconclusive', 'detail': 'monitor error %r' % (e,)})
            return ret
        cls.forward = staticmethod(forward)
        cls.backward = staticmethod(backward)

    def judge(cls, fwd, ctx, grads, ret, n_diff):
        """adjoint identity on the observed cotangent: <L x, g> == <x, backward(g)> for random x, with
        L = the Function's own forward body run without autograd (no autograd involved at all)"""
        args = ctx._verif_args
        rec = {'cls': cls.__name__, 'shapes': [list(a.shape) if isinstance(a, torch.Tensor) else a
                                                for a in args[:n_diff]],
               'opts': [a for a in args if not isinstance(a, torch.Tensor)]}
        live = [i for i in range(n_diff) if isinstance(args[i], torch.Tensor) and args[i].dim() > 0
                and args[i].numel() > 0]
        for i in live:
            if ctx.needs_input_grad[i] and ret[i] is None:
                rec.update(status='violated', detail='backward returned None for differentiable input %d' % i)
                _FN['log'].append(rec)
                return
            if ret[i] is not None and tuple(ret[i].shape) != tuple(args[i].shape):
                rec.update(status='violated', detail='gradient shape %s, input shape %s' % (
                    tuple(ret[i].shape), tuple(args[i].shape)))
                _FN['log'].append(rec)
                return
        worst = 0.0
        gen = torch.Generator().manual_seed(1234)
        with torch.no_grad():
            for probe in range(3):
                xs = list(args[:n_diff])
                for i in live:
                    if ctx.needs_input_grad[i]:
                        xs[i] = torch.randn(args[i].shape, generator=gen, dtype=args[i].dtype)
                    else:
                        xs[i] = torch.zeros_like(args[i])
                y = fwd(_Ctx(), *xs, *args[n_diff:])
                ys = list(y) if isinstance(y, tuple) else [y]
                lhs, nrm_g, nrm_y = 0.0, 0.0, 0.0
                for o_, g in zip(ys, grads):
                    if isinstance(o_, torch.Tensor) and g is not None and tuple(g.shape) == tuple(o_.shape) and o_.dim() > 0:
                        lhs += float((o_.double() * g.double()).sum())
                        nrm_g += float((g.double() ** 2).sum())
                        nrm_y += float((o_.double() ** 2).sum())
                rhs, nrm_x, nrm_r = 0.0, 0.0, 0.0
                for i in live:
                    if ctx.needs_input_grad[i]:
                        rhs += float((xs[i].double() * ret[i].double()).sum())
                        nrm_x += float((xs[i].double() ** 2).sum())
                        nrm_r += float((ret[i].double() ** 2).sum())
                eps = float(torch.finfo(grads[0].dtype).eps) if grads[0] is not None else 2.2e-16
                scale = max((nrm_g * nrm_y) ** 0.5, (nrm_x * nrm_r) ** 0.5, 1e-300)
                worst = max(worst, abs(lhs - rhs) / (1e4 * eps * scale))
        rec['ratio'] = worst
        if worst <= 1.0:
            rec['status'] = 'held'
        else:
            rec.update(status='violated', detail='adjoint identity <L x, g> = <x, backward(g)> fails: '
                       'residual %.3g x tolerance (tolerance 1e4*eps*|Lx||g|)' % worst)
        _FN['log'].append(rec)

    wrap(tf.FWD_J1, 1)
    wrap(tf.FWD_J2PLUS, 1)
    wrap(tf.INV_J1, 2)
    wrap(tf.INV_J2PLUS, 2)
    # the module file imported the classes by name; they are the same class objects, nothing to re-bind
    _FN['installed'] = True


def worker_setup(tier, seed):
    install_function_monitor()


def run_cell(cell, seed):
    if cell.get('suite'):
        from . import c05
        return c05.suite_cell(cell, PROP, ['tests/test_dtcwt.py'])
    del _FN['log'][:]
    out = forward_dir(cell, seed) if cell['dir'] == 'forward' else inverse_dir(cell, seed)
    seen = set()
    for rec in _FN['log']:
        case = {'cell': cell, 'check': 'function', 'fn': {'cls': rec['cls'], 'shapes': rec.get('shapes'),
                                                           'opts': rec.get('opts')}}
        k = (rec['cls'], rec['status'], str(rec.get('shapes')))
        if k in seen:
            continue
        seen.add(k)
        if rec['status'] == 'held':
            out.append(res(HELD, case, 'M-FN', ratio=rec.get('ratio')))
        elif rec['status'] == 'violated':
            out.append(res(VIOLATED, case, 'M-FN', rec['detail'], ratio=rec.get('ratio')))
        else:
            out.append(res(INCONCLUSIVE, case, 'M-FN', rec['detail']))
    del _FN['log'][:]
    return out


def extra_cov(results, meta):
    pairs, lay = set(), set()
    for r in results:
        c = r['case'].get('cell')
        if c:
            pairs.add((c['biort'], c['qshift']))
            lay.add((c['o'] % 6, c['r'] % 6))
    return {'filter_pairs_covered': len(pairs), 'layout_residue_classes_covered': len(lay),
            'function_level_backward_invocations_judged': sum(1 for r in results if r['monitor'] == 'M-FN'),
            'grad_subset_patterns_executed': sum(1 for r in results if r['monitor'] == 'M-JAC.subset')}
