"""C03 - DTCWT analysis equals the reference NumPy dual-tree implementation.

Monitor M-REF on DTCWTForward.forward: lowpass and the six complex oriented subbands per level
(order 15,45,75,105,135,165; re/im on the last axis) against dtcwt.Transform2d(biort,qshift)
.forward(x, nlevels=J) evaluated per (n,c) slice of the same array.  Shapes follow the reference
pyramid exactly (M-SHAPE).  Impulse batches + M-DISP.linear certificate generalise per cell.
"""
import numpy as np
from .. import core, refs, util
from ..core import res, HELD, VIOLATED, INCONCLUSIVE

PROP = 'C03'
RULE = ('cells = (biort in 4 names, qshift in 5 names, J in 1..5, HxW from 2..37 crossed so rows != cols, '
        'odd and non-multiple-of-4 sizes and images smaller than the filters included); per cell an '
        'impulse batch (all impulses up to 12x12, 48 sampled impulses above) and dense / dynamic-range / '
        'structured inputs; distinct by (cell, input kind); non-trivial when the input is not all-zero'
        '; N in {1,2,6}, C in {1,2,3,4,6} and a few cells with 32..64 channels or batch items; the dense random input repeated inside torch.no_grad(); reload histories; filters given directly')
ASSUMPTIONS = ['dtcwt 0.14 (NumPy backend) Transform2d.forward is the specification', 'float64',
               'sides <= 37, J <= 5']
TIMEOUT = {'quick': 900, 'thorough': 3300}
WORKER_BUDGET = {'quick': 600, 'thorough': 2700}
MIN_HELD = {'quick': 150, 'thorough': 16025}
SIDES = [2, 3, 4, 5, 6, 7, 8, 9, 10, 11, 12, 13, 14, 16, 17, 18, 20, 22, 26, 30, 33, 34, 37]


def cells(tier, seed, salt=''):
    rnd = core.rng_for(seed, PROP, tier, salt)
    out = []
    reps = 14 if tier == 'quick' else 500
    for b in refs.BIORTS:
        for q in refs.QSHIFTS:
            for _ in range(reps):
                h, w = rnd.choice(SIDES), rnd.choice(SIDES)
                while w == h:
                    w = rnd.choice(SIDES)
                if rnd.random() < 0.5:
                    h, w = min(h, 14), min(w, 14) if min(w, 14) != min(h, 14) else 13 if min(h, 14) != 13 else 12
                out.append({'biort': b, 'qshift': q, 'J': rnd.choice([1, 2, 2, 3, 3, 4, 5]), 'shape': [h, w],
                            'N': rnd.choice([1, 2, 6]), 'C': rnd.choice([1, 2, 3, 4, 6])})
    # many channels / wide batches (sizes at which grouped convolutions are commonly replaced)
    for _ in range(6 if tier == 'quick' else 120):
        big = rnd.choice([32, 33, 64])
        N, C = (1, big) if rnd.random() < 0.7 else (big, 1)
        out.append({'biort': rnd.choice(refs.BIORTS), 'qshift': rnd.choice(refs.QSHIFTS), 'J': rnd.choice([2, 3]),
                    'shape': [rnd.choice([8, 10, 13]), rnd.choice([9, 12, 16])], 'N': N, 'C': C})
    rnd.shuffle(out)
    return out


def build(cell, **kw):
    import torch
    import pytorch_wavelets as pw
    with util.default_dtype(torch.float64):
        return pw.DTCWTForward(biort=cell['biort'], qshift=cell['qshift'], J=cell['J'], **kw)


def build_tuple(cell, biort, qshift):
    import torch
    import pytorch_wavelets as pw
    with util.default_dtype(torch.float64):
        return pw.DTCWTForward(biort=biort, qshift=qshift, J=cell['J'])


def to_complex(h):
    a = util.np64(h)
    return a[..., 0] + 1j * a[..., 1]


def impulse_input(cell, seed):
    import torch
    sp = cell['shape']
    x = util.impulses(sp)
    if x.shape[0] > 144:
        idx = torch.randperm(x.shape[0], generator=util.gen(seed, 'imp', str(cell)))[:48]
        x = x[idx]
    return x


def judge(cell, kind, x, ok, out):
    case = {'cell': cell, 'input': kind}
    xn = util.np64(x)
    try:
        ryl, ryh, _ = refs.dtcwt_fwd(xn, cell['biort'], cell['qshift'], cell['J'])
    except Exception as e:
        return res(INCONCLUSIVE, case, 'M-REF', 'reference raised %r' % (e,))
    if not ok:
        return res(VIOLATED, case, 'M-REF', 'library raised %r where the reference returns' % (out,))
    try:
        yl, yh = out
        if len(yh) != cell['J']:
            return res(VIOLATED, case, 'M-SHAPE', 'returned %d levels, J=%d' % (len(yh), cell['J']))
        for j, h in enumerate(yh):
            if h.dim() != 6 or h.shape[2] != 6 or h.shape[-1] != 2:
                return res(VIOLATED, case, 'M-SHAPE', 'yh[%d] has shape %s, expected (N,C,6,h,w,2)' % (j, tuple(h.shape)))
        items = [('yl', yl, ryl)]
        for j in range(cell['J']):
            items.append(('yh[%d].real' % j, yh[j][..., 0], ryh[j].real))
            items.append(('yh[%d].imag' % j, yh[j][..., 1], ryh[j].imag))
    except Exception as e:
        return res(VIOLATED, case, 'M-SHAPE', 'result is not a (yl, [yh]) pyramid: %r' % (e,))
    tol = 1e-11 * refs.dtcwt_gain(cell['biort'], cell['qshift'], cell['J']) * max(float(np.abs(xn).max()), 1e-300)
    okc, detail, ratio = util.compare_many(items, tol)
    return res(HELD, case, 'M-REF', ratio=ratio) if okc else res(VIOLATED, case, 'M-REF', detail, ratio=ratio)


def run_cell(cell, seed):
    import torch
    out = []
    mod = build(cell)
    sp = cell['shape']
    rnd = core.rng_for(seed, PROP, 'k', str(cell))
    for kind in ['impulse', 'randn', rnd.choice(['dynrange', 'const', 'alt', 'outlier', 'ramp'])]:
        x = impulse_input(cell, seed) if kind == 'impulse' else util.make_input(kind, [cell['N'], cell['C']] + sp, seed)
        ok, y = util.call_lib(mod, x)
        out.append(judge(cell, kind, x, ok, y))
        if kind == 'randn':
            ok, y = util.call_lib_nograd(mod, x)
            out.append(judge(cell, 'randn under torch.no_grad()', x, ok, y))
            ok, y = util.call_lib_eval(mod, x)
            out.append(judge(cell, 'randn, module in eval() mode', x, ok, y))
            ok, y = util.call_lib(mod, util.channel_sliced(x))
            out.append(judge(cell, 'randn as a channel-sliced (non-contiguous) view', x, ok, y))
    # filters given directly as arrays (documented alternative to the names) must give the same transform
    import dtcwt.coeffs as dc
    bt, qt = dc.biort(cell['biort']), dc.qshift(cell['qshift'])
    case = {'cell': cell, 'input': 'randn', 'form': 'filter tuples'}
    ok, modt = util.call_lib(build_tuple, cell, (bt[0], bt[2]), (qt[0], qt[1], qt[4], qt[5]))
    if not ok:
        out.append(res(VIOLATED, case, 'M-REF', 'constructor with filter tuples raised %r' % (modt,)))
    else:
        x = util.make_input('randn', [cell['N'], cell['C']] + sp, seed + 17)
        ok, y = util.call_lib(modt, x)
        out.append(judge(cell, 'randn', x, ok, y))
        out[-1]['case'] = dict(out[-1]['case'], form='filter tuples')
    if cell['qshift'] in ('qshift_06', 'qshift_a') and cell['J'] >= 2:
        # history: in-place reload of the q-shift buffers with the other 10-tap table, then use again
        other = 'qshift_a' if cell['qshift'] == 'qshift_06' else 'qshift_06'
        cell2 = dict(cell, qshift=other, reloaded_from=cell['qshift'])
        modr = build(cell)
        xr = util.make_input('randn', [cell['N'], cell['C']] + sp, seed + 23)
        if util.call_lib(modr, xr)[0]:
            if util.reload_in_place(modr, build(cell2)):
                ok, y = util.call_lib(modr, xr)
                out.append(judge(cell2, 'reload-randn', xr, ok, y))
            else:
                out.append(res(INCONCLUSIVE, {'cell': cell2, 'input': 'reload'}, 'M-REF', 'in-place reload of the q-shift buffers refused (different tap counts)'))
    x = util.make_input('randn', [1, 1] + sp, seed)
    if util.call_lib(mod, x)[0]:
        st, detail, info = util.linear_certificate(lambda t: mod(t), [x], [torch.zeros_like(x)])
        case = {'cell': cell, 'input': 'certificate'}
        out.append(res(HELD, case, 'M-DISP.linear', info) if st == 'certified' else
                   res(INCONCLUSIVE, case, 'M-DISP.linear', '%s: %s' % (st, detail)))
    return out


def nontrivial(r):
    return r['monitor'] == 'M-REF'


def extra_cov(results, meta):
    pairs, strata = set(), {}
    for r in results:
        c = r['case'].get('cell')
        if c and r['monitor'] == 'M-REF':
            pairs.add((c['biort'], c['qshift']))
            k = 'J%d/%s/%s' % (c['J'], 'odd' if any(s % 2 for s in c['shape']) else 'even',
                               'mult4' if all(s % 4 == 0 for s in c['shape']) else 'notmult4')
            strata[k] = strata.get(k, 0) + 1
    return {'filter_pairs_covered': len(pairs), 'strata': strata,
            'cells_certified_linear': sum(1 for r in results if r['monitor'] == 'M-DISP.linear' and r['status'] == HELD)}
