"""C12 - DTCWT options only re-arrange or select outputs; pyramids are prefix-consistent.

Metamorphic runtime monitors on DTCWTForward / DTCWTInverse (the default-layout, unskipped,
J-level call of the same module family observed in the same run is the reference):
  M-LAYOUT  (o_dim, ri_dim): every subband equals the default (N,C,6,H,W,2) subband with the
            orientation axis at o_dim%6 and the re/im axis at ri_dim%6 (other axes in order);
  M-RT      the inverse configured with the same pair reconstructs the input;
  M-SKIP    skipped levels are empty placeholders, lowpass and every other level unchanged;
  M-SCALE   requested intermediate lowpasses equal the lowpasses of the shorter transforms;
  M-PREFIX  the first j levels of a J-level transform equal the j-level transform.
Comparisons use a rounding-level bound (8*eps*gain*max|x|); bit-identity is counted, not demanded.
"""
import itertools
import numpy as np
from .. import core, refs, util
from ..core import res, HELD, VIOLATED, INCONCLUSIVE

PROP = 'C12'
RULE = ('cells = (filter pair, J in 1..4, HxW incl. odd / non-multiple-of-4 / non-square, (o_dim, ri_dim) '
        'from the 132 ordered pairs in -6..5 with distinct residues mod 6, skip mask, include mask); '
        'thorough enumerates all 132 layout pairs and all 2^J x 2^J masks for J<=3; distinct by '
        '(cell, monitor); non-trivial when the input is dense random')
ASSUMPTIONS = ['the default-layout unskipped transform is anchored to the NumPy reference by C03/C04',
               'float64; rounding-level bound 8*eps*gain*max|x|']
TIMEOUT = {'quick': 900, 'thorough': 3300}
WORKER_BUDGET = {'quick': 600, 'thorough': 2700}
MIN_HELD = {'quick': 400, 'thorough': 8361}
EXHAUSTIVE = {'quick': False, 'thorough': False}
PAIRS = [(o, r) for o in range(-6, 6) for r in range(-6, 6) if o % 6 != r % 6]
SHAPES = [(8, 8), (12, 20), (7, 10), (9, 13), (6, 14), (16, 10), (5, 5), (10, 18), (4, 6), (2, 3), (22, 9)]
FPAIRS = [('near_sym_a', 'qshift_a'), ('legall', 'qshift_c'), ('near_sym_b', 'qshift_d'), ('antonini', 'qshift_06'),
          ('near_sym_b', 'qshift_b')]


def cells(tier, seed):
    rnd = core.rng_for(seed, PROP, tier)
    out = []
    if tier == 'quick':
        for (o, r) in PAIRS + PAIRS:
            b, q = rnd.choice(FPAIRS)
            J = rnd.choice([1, 2, 3])
            out.append({'kind': 'layout', 'biort': b, 'qshift': q, 'J': J, 'shape': list(rnd.choice(SHAPES)),
                        'o': o, 'r': r, 'skip': [rnd.random() < 0.3 for _ in range(J)]})
        for _ in range(320):
            b, q = rnd.choice(FPAIRS)
            J = rnd.choice([1, 2, 3, 4])
            out.append({'kind': 'masks', 'biort': b, 'qshift': q, 'J': J, 'shape': list(rnd.choice(SHAPES)),
                        'skip': [rnd.random() < 0.5 for _ in range(J)],
                        'include': [rnd.random() < 0.5 for _ in range(J)]})
    else:
        for (o, r) in PAIRS * 4:
            for b, q in FPAIRS:
                for J in (1, 2, 3):
                    out.append({'kind': 'layout', 'biort': b, 'qshift': q, 'J': J,
                                'shape': list(rnd.choice(SHAPES)), 'o': o, 'r': r,
                                'skip': [rnd.random() < 0.3 for _ in range(J)]})
        for J in (1, 2, 3):
            for skip in itertools.product([False, True], repeat=J):
                for inc in itertools.product([False, True], repeat=J):
                    for b, q in FPAIRS * 4:
                        out.append({'kind': 'masks', 'biort': b, 'qshift': q, 'J': J,
                                    'shape': list(rnd.choice(SHAPES)), 'skip': list(skip), 'include': list(inc)})
        for _ in range(3000):
            b, q = rnd.choice(FPAIRS)
            out.append({'kind': 'masks', 'biort': b, 'qshift': q, 'J': 4, 'shape': list(rnd.choice(SHAPES)),
                        'skip': [rnd.random() < 0.5 for _ in range(4)],
                        'include': [rnd.random() < 0.5 for _ in range(4)]})
    # the padding-mode option: the selection rules hold in every mode (the level-1 filters pad with zeros
    # in any mode but 'symmetric'); forward-only cells, since perfect reconstruction is a symmetric-mode fact
    for c in out:
        if c['kind'] == 'masks' and rnd.random() < 0.3:
            c['mode'] = 'zero'
    rnd.shuffle(out)
    return out


def fwd(cell, J=None, **kw):
    import torch
    import pytorch_wavelets as pw
    with util.default_dtype(torch.float64):
        if cell.get('mode'):
            kw.setdefault('mode', cell['mode'])
        return pw.DTCWTForward(biort=cell['biort'], qshift=cell['qshift'], J=J or cell['J'], **kw)


def is_placeholder(t):
    import torch
    return isinstance(t, torch.Tensor) and (t.dim() == 0 or t.numel() == 0)


def expected_layout(default, o, r):
    """default (N,C,6,H,W,2) -> tensor with O at o%6 and RI at r%6, the other axes in order"""
    o6, r6 = o % 6, r % 6
    src = {'N': 0, 'C': 1, 'O': 2, 'H': 3, 'W': 4, 'RI': 5}
    names = [None] * 6
    names[o6], names[r6] = 'O', 'RI'
    rest = iter(['N', 'C', 'H', 'W'])
    for i in range(6):
        if names[i] is None:
            names[i] = next(rest)
    return default.permute(*[src[n] for n in names])


def cmp_exact(name, got, want, tol, stats):
    import torch
    if tuple(got.shape) == tuple(want.shape) and torch.equal(got, want):
        stats['bit_identical'] = stats.get('bit_identical', 0) + 1
        return True, None, 0.0
    return util.compare(name, got, util.np64(want), tol)


def run_cell(cell, seed):
    import torch
    import pytorch_wavelets as pw
    out = []
    J = cell['J']
    sp = cell['shape']
    x = util.make_input('randn', [2, 2] + sp, seed)
    G = refs.dtcwt_gain(cell['biort'], cell['qshift'], J)
    tol = 8 * util.EPS64 * G * float(x.abs().max())
    stats = {}
    ok, base = util.call_lib(fwd(cell), x)
    if not ok:
        return [res(INCONCLUSIVE, {'cell': cell}, 'M-LAYOUT', 'default-layout forward raised %r' % (base,))]
    yl0, yh0 = base
    if cell['kind'] == 'layout':
        o, r = cell['o'], cell['r']
        case = {'cell': cell}
        ok, y = util.call_lib(lambda: fwd(cell, o_dim=o, ri_dim=r, skip_hps=cell['skip'])(x))
        if not ok:
            out.append(res(VIOLATED, case, 'M-LAYOUT', 'forward raised %r' % (y,)))
            return out
        yl, yh = y
        fail, worst = None, 0.0
        okc, d, ratio = cmp_exact('yl', yl, yl0, tol, stats)
        if not okc:
            fail = d
        for j in range(J):
            if cell['skip'][j]:
                if not is_placeholder(yh[j]):
                    fail = fail or 'skipped level %d is not an empty placeholder: shape %s' % (j, tuple(yh[j].shape))
                continue
            okc, d, ratio = cmp_exact('yh[%d]' % j, yh[j], expected_layout(yh0[j], o, r), tol, stats)
            worst = max(worst, ratio)
            if not okc and fail is None:
                fail = d
        out.append(res(HELD, case, 'M-LAYOUT', ratio=worst, bit_identical=stats.get('bit_identical', 0))
                   if fail is None else res(VIOLATED, case, 'M-LAYOUT', fail, ratio=worst))
        # inverse with the same pair (full pyramid)
        ok, yfull = util.call_lib(lambda: fwd(cell, o_dim=o, ri_dim=r)(x))
        if ok:
            with util.default_dtype(torch.float64):
                ok2, inv = util.call_lib(pw.DTCWTInverse, biort=cell['biort'], qshift=cell['qshift'], o_dim=o, ri_dim=r)
            if ok2:
                ok2, xr = util.call_lib(inv, yfull)
            if not ok2:
                out.append(res(VIOLATED, case, 'M-RT', 'inverse with the same (o_dim, ri_dim) raised %r' % (xr if ok else inv,)))
            else:
                Gs = refs.dtcwt_gain(cell['biort'], cell['qshift'], J, True)
                H, W = sp
                want = [2, 2, H + H % 2, W + W % 2]
                if list(xr.shape) != want:
                    out.append(res(VIOLATED, case, 'M-RT', 'reconstruction shape %s expected %s' % (list(xr.shape), want)))
                else:
                    okc, d, ratio = util.compare('inverse(forward(x))', xr[..., :H, :W], util.np64(x),
                                                 1e-10 * G * Gs * float(x.abs().max()))
                    out.append(res(HELD, case, 'M-RT', ratio=ratio) if okc else res(VIOLATED, case, 'M-RT', d, ratio=ratio))
                # a missing lowpass in this layout: the same as a lowpass of zeros (the zeros are sized from the
                # coarsest bandpass, whose batch / channel axes depend on (o_dim, ri_dim))
                case2 = dict(case, check='missing lowpass in this layout')
                okz, xz = util.call_lib(inv, (torch.zeros_like(yfull[0]), list(yfull[1])))
                okn, xn_ = util.call_lib(inv, (None, list(yfull[1])))
                if okz and not okn:
                    out.append(res(VIOLATED, case2, 'M-RT', 'inverse with lowpass None raised %r; explicit zeros reconstruct' % (xn_,)))
                elif okz and okn:
                    okc, d, ratio = cmp_exact('None lowpass vs zeros', xn_, xz, tol * Gs, stats)
                    out.append(res(HELD, case2, 'M-RT', ratio=ratio) if okc else res(VIOLATED, case2, 'M-RT', d, ratio=ratio))
        return out
    # ---- masks / prefix
    skip, inc = cell['skip'], cell['include']
    case = {'cell': cell}
    ok, y = util.call_lib(lambda: fwd(cell, skip_hps=skip, include_scale=inc)(x))
    if not ok:
        return [res(VIOLATED, case, 'M-SKIP', 'forward raised %r' % (y,))]
    yl, yh = y
    # shorter transforms
    shorter = {}
    for j in range(1, J + 1):
        okj, yj = util.call_lib(fwd(cell, J=j), x)
        if okj:
            shorter[j] = yj
    # M-SKIP
    fail, worst = None, 0.0
    if not isinstance(yh, (list, tuple)) or len(yh) != J:
        fail = 'highpass list has wrong length'
    else:
        for j in range(J):
            if skip[j]:
                if not is_placeholder(yh[j]):
                    fail = fail or 'skipped level %d is not an empty placeholder: shape %s' % (j, tuple(yh[j].shape))
            else:
                okc, d, ratio = cmp_exact('yh[%d]' % j, yh[j], yh0[j], tol, stats)
                worst = max(worst, ratio)
                if not okc and fail is None:
                    fail = d
    if any(inc):
        final = yl[J - 1] if inc[J - 1] else None
    else:
        final = yl
    if final is not None:
        okc, d, ratio = cmp_exact('final lowpass', final, yl0, tol, stats)
        if not okc and fail is None:
            fail = d
    out.append(res(HELD, case, 'M-SKIP', ratio=worst, bit_identical=stats.get('bit_identical', 0))
               if fail is None else res(VIOLATED, case, 'M-SKIP', fail, ratio=worst))
    # M-SCALE
    if any(inc):
        fail, worst = None, 0.0
        if not isinstance(yl, (list, tuple)) or len(yl) != J:
            fail = 'include_scale requested but the lowpass output is not a list of length J'
        else:
            for j in range(J):
                if inc[j] and (j + 1) in shorter:
                    okc, d, ratio = cmp_exact('scale[%d]' % j, yl[j], shorter[j + 1][0], tol, stats)
                    worst = max(worst, ratio)
                    if not okc and fail is None:
                        fail = d
        out.append(res(HELD, case, 'M-SCALE', ratio=worst) if fail is None else
                   res(VIOLATED, case, 'M-SCALE', fail, ratio=worst))
    # M-PREFIX
    fail, worst = None, 0.0
    for j in range(1, J):
        if j not in shorter:
            fail = fail or 'the %d-level transform raised' % j
            continue
        for k in range(j):
            okc, d, ratio = cmp_exact('J=%d level %d' % (j, k), shorter[j][1][k], yh0[k], tol, stats)
            worst = max(worst, ratio)
            if not okc and fail is None:
                fail = d
    if J > 1:
        out.append(res(HELD, case, 'M-PREFIX', ratio=worst) if fail is None else
                   res(VIOLATED, case, 'M-PREFIX', fail, ratio=worst))
    return out


def extra_cov(results, meta):
    lay = set()
    masks = set()
    bit = 0
    for r in results:
        c = r['case'].get('cell', {})
        if c.get('kind') == 'layout':
            lay.add((c['o'], c['r']))
        elif c.get('kind') == 'masks':
            masks.add((c['J'], tuple(c['skip']), tuple(c['include'])))
        bit += r.get('bit_identical', 0)
    return {'layout_pairs_covered': len(lay), 'layout_pairs_total': len(PAIRS),
            'layout_residue_classes_covered': len(set((o % 6, r % 6) for o, r in lay)),
            'mask_combinations_covered': len(masks), 'bit_identical_comparisons': bit,
            'layout_dimension_exhaustive': len(lay) == len(PAIRS)}
