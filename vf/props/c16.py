"""C16 - dtype is preserved and float32 results are float32-accurate.

Monitors (all transforms incl. inverses, SWT and the scattering layers; every public entry point is
wrapped by vf.attach, so the context-free monitors see every call made here):
  M-SHAPE.dtype     every floating tensor returned has the dtype of the input (postcondition);
  M-DISP.precision  ATen dispatch monitor: during a call with floating input dtype D no operator
                    produces a floating tensor narrower than D (catches float32 / half detours
                    inside a float64 / float32 call even when the final dtype is restored);
  M-F32             |y32 - y64| <= 64*eps32*(gain*max|x| + bias) for the same float32-representable
                    input;
  M-CONVERT         .float() of a float64-built module behaves like a float32-built one
                    (8*eps32 bound, bit identity counted); .double() of a float32-built module
                    gives float64 outputs within 64*eps32*gain*max|x| of the natively double one
                    (its taps were rounded to float32 at construction: torch semantics);
  M-STRIDE          non-contiguous inputs (transposed storage, step slices, stride-0 expand,
                    channels_last, narrowed) give the values of their contiguous copies
                    (8*eps bound, bit identity counted);
  M-NONE            DWT inverses with None levels work in both precisions and keep the dtype.
"""
import numpy as np
from .. import core, refs, util, adapters, attach
from ..core import res, HELD, VIOLATED, INCONCLUSIVE

PROP = 'C16'
RULE = ('cells = (transform in {DWT1D/2D fwd+inv, SWT, DTCWT fwd+inv, ScatLayer, ScatLayerj2}, configuration, '
        'N, C, input class in {randn, dynrange, const, outlier, ramp(offset)}); per cell four module instances '
        '(built in f32 / f64, converted with .float() / .double()), f32-vs-f64 differential, converted-vs-native, '
        'five strided-view classes vs contiguous copies, None levels for the DWT inverses; distinct by (cell, check)'
        '; every module called with the other precision (refusal allowed, a returned tensor must have the input dtype); J=0 DWT forward returns the input unchanged; absent DTCWT entries (None levels, missing lowpass) in all four module precisions')
ASSUMPTIONS = ['gain = largest absolute row sum of the operator extracted from an impulse execution in the same run '
               '(linear transforms); composed stage gains for the scattering layers', 'torch .double()/.float() semantics for buffers/parameters']
TIMEOUT = {'quick': 900, 'thorough': 3300}
WORKER_BUDGET = {'quick': 600, 'thorough': 2700}
MIN_HELD = {'quick': 500, 'thorough': 43654}
IN_KINDS = ['randn', 'dynrange', 'const', 'outlier', 'ramp', 'small', 'stripes', 'offset']


def cells(tier, seed):
    rnd = core.rng_for(seed, PROP, tier)
    out = []
    n = 26 if tier == 'quick' else 800
    for kind in adapters.ALL_KINDS:
        for _ in range(n):
            c = adapters.random_config(kind, rnd)
            c['N'], c['C'] = rnd.choice([1, 2, 3, 4]), rnd.choice([1, 2, 3, 4, 6])
            c['input'] = rnd.choice(IN_KINDS)
            if kind in ('dwt1i', 'dwt2i') and rnd.random() < 0.5:
                m = [rnd.random() < 0.5 for _ in range(c['J'])]
                if not any(m):
                    m[rnd.randrange(c['J'])] = True
                c['none_mask'] = m
            if kind == 'dti' and rnd.random() < 0.5:
                # absent entries of a DTCWT pyramid (None): some highpass levels, sometimes the lowpass too
                # (then the coarsest highpass is kept, from which the library sizes the zeros)
                m = [rnd.random() < 0.4 for _ in range(c['J'])]
                if rnd.random() < 0.5:
                    m[-1] = False
                    c['low_absent'] = True
                if any(m) or c.get('low_absent'):
                    c['none_mask'] = m
            out.append(c)
    rnd.shuffle(out)
    return out


def worker_setup(tier, seed):
    attach.install(dispatch=True, functions=True)


def views_of(x, rnd_seed):
    """strided views holding the same values as x (N,C,*spatial): [(name, view)]"""
    import torch
    out = []
    nd = x.dim()
    # transposed storage: last two axes swapped in memory
    t = x.transpose(-1, -2 if nd == 4 else 1).contiguous().transpose(-1, -2 if nd == 4 else 1)
    out.append(('transposed-storage', t))
    # step slice out of a larger buffer
    big = torch.zeros(list(x.shape[:-1]) + [2 * x.shape[-1]], dtype=x.dtype)
    big[..., ::2] = x
    out.append(('step-slice', big[..., ::2]))
    # narrowed out of a larger buffer (storage offset + gaps)
    pad = torch.full([x.shape[0] + 1, x.shape[1] + 1] + [s + 2 for s in x.shape[2:]], 7.0, dtype=x.dtype)
    idx = (slice(1, None), slice(1, None)) + tuple(slice(1, 1 + s) for s in x.shape[2:])
    pad[idx] = x
    out.append(('narrowed', pad[idx]))
    if nd == 4:
        out.append(('channels-last', x.contiguous(memory_format=torch.channels_last)))
    # permuted batch/channel storage
    out.append(('nc-permuted', x.transpose(0, 1).contiguous().transpose(0, 1)))
    return out


def expand_case(ad, N, C, seed, dtype):
    """stride-0 expand along batch: one slice repeated"""
    base = ad.rand_args(1, C, seed + 5, 'randn', dtype)
    return [b.expand(*([max(N, 2)] + list(b.shape[1:]))) for b in base]


def cmp_lists(name, got, want, tol):
    import torch
    worst, fail, bit = 0.0, None, 0
    if len(got) != len(want):
        return False, '%s: %d outputs vs %d' % (name, len(got), len(want)), float('inf'), 0
    for i, (g, w) in enumerate(zip(got, want)):
        if g.dtype == w.dtype and tuple(g.shape) == tuple(w.shape) and torch.equal(g, w):
            bit += 1
            continue
        ok, d, ratio = util.compare('%s out[%d]' % (name, i), g, util.np64(w), tol)
        worst = max(worst, ratio)
        if not ok and fail is None:
            fail = d
    return fail is None, fail, worst, bit


_SG = {}


def scat_true_gain(cell):
    """gain of the scattering layer = composed gains of its linear DTCWT stages (largest absolute row
    sums extracted from impulse executions of DTCWTForward with the same filters), times sqrt(2) per
    magnitude (|re| + |im| <= sqrt(2) |z|).  None for the band-pass family (no DTCWTForward equivalent)."""
    if cell['biort'] == 'near_sym_b_bp':
        return None
    order = 1 if cell['kind'] == 'scat1' else 2
    H, W = cell['shape']
    m = 2 if order == 1 else 8
    He, We = -(-H // m) * m, -(-W // m) * m
    key = (cell['biort'], cell['qshift'], He, We, order)
    if key not in _SG:
        try:
            g1 = adapters.Adapter({'kind': 'dtf', 'biort': cell['biort'], 'qshift': cell['qshift'], 'J': 1, 'shape': [He, We]}).true_gain(cap=2000)
            if order == 1:
                _SG[key] = None if g1 is None else 2 ** 0.5 * g1
            else:
                g2 = adapters.Adapter({'kind': 'dtf', 'biort': cell['biort'], 'qshift': cell['qshift'], 'J': 2, 'shape': [He, We]}).true_gain(cap=2000)
                g1b = adapters.Adapter({'kind': 'dtf', 'biort': cell['biort'], 'qshift': cell['qshift'], 'J': 1, 'shape': [He // 2, We // 2]}).true_gain(cap=2000)
                _SG[key] = None if None in (g1, g2, g1b) else 2.0 * max(g1, g2) * g1b
        except Exception:
            _SG[key] = None
    return _SG[key]


def run_cell(cell, seed):
    import torch
    out = []
    attach.drain()
    f32, f64 = torch.float32, torch.float64
    try:
        A64 = adapters.Adapter(cell, f64)
        A32 = adapters.Adapter(cell, f32)
        A64f = adapters.Adapter(cell, f64, 'float')
        A32d = adapters.Adapter(cell, f32, 'double')
    except Exception as e:
        return [res(VIOLATED, {'cell': cell, 'check': 'construct'}, 'M-CONVERT', 'construction / conversion raised %r' % (e,))]
    N, C = cell['N'], cell['C']
    xs32 = A64.rand_args(N, C, seed, cell['input'], f32)
    xs64 = [x.double() for x in xs32]
    mx = max(float(x.abs().max()) for x in xs64)
    G, b = A64.gain, A64.bias
    tg = A64.true_gain()
    if tg is not None and tg > 0:
        G = min(G, max(tg, 1e-3))      # the operator's own largest absolute row sum, extracted in this run
    if cell['kind'] in ('scat1', 'scat2'):
        sg = scat_true_gain(cell)
        if sg:
            G = min(G, sg)
    e32 = util.EPS32
    ok64, y64 = util.call_lib(A64.apply, xs64)
    ok32, y32 = util.call_lib(A32.apply, xs32)
    base = {'cell': cell}
    if not ok64 and not ok32 and (cell.get('mode') == 'reflect' or cell.get('none_mask')) \
            and type(y64) is type(y32):
        # reflect on a short signal, or a None level that makes the pyramid shape-inconsistent (pywt
        # rejects those too; that is C10's subject): the same exception in both precisions is not a
        # dtype matter
        return [res(core.SKIPPED, dict(base, check='f32'), 'M-F32', 'raises identically in both precisions (%s)' % type(y64).__name__)]
    # dtype postcondition, explicit (the attach monitors check it too, on every call)
    for nm, ok, y, want in (('f64-built on f64', ok64, y64, f64), ('f32-built on f32', ok32, y32, f32)):
        case = dict(base, check='dtype ' + nm)
        if not ok:
            out.append(res(VIOLATED, case, 'M-SHAPE.dtype', 'call raised %r' % (y,)))
        else:
            bad = [str(t.dtype) for t in y if t.is_floating_point() and t.dtype != want]
            out.append(res(HELD, case, 'M-SHAPE.dtype', ratio=0.0) if not bad else
                       res(VIOLATED, case, 'M-SHAPE.dtype', 'outputs have dtype %s for %s input' % (bad[:2], want)))
    if not (ok64 and ok32):
        return out + drain_attach(cell)
    # float32 accuracy
    case = dict(base, check='f32 vs f64')
    tol = 64 * e32 * (G * mx + b)
    okc, d, ratio, _ = cmp_lists('float32 vs float64', [t.double() for t in y32], y64, tol)
    out.append(res(HELD, case, 'M-F32', ratio=ratio) if okc else res(VIOLATED, case, 'M-F32', d, ratio=ratio))
    # the same comparison at low amplitude (absolute floors / epsilons that depend on the dtype show here)
    for amp in (1e-4, 1e-7):
        case = dict(base, check='f32 vs f64, low amplitude', amplitude=amp)
        xl32 = [(x * amp).float() for x in xs64]
        xl64 = [x.double() for x in xl32]
        ok_a, ya = util.call_lib(A64.apply, xl64)
        ok_b, yb = util.call_lib(A32.apply, xl32)
        if ok_a and ok_b:
            mxl = max(float(x.abs().max()) for x in xl64)
            okc, d, ratio, _ = cmp_lists('float32 vs float64', [t.double() for t in yb], ya, 64 * e32 * (G * mxl + b))
            out.append(res(HELD, case, 'M-F32', ratio=ratio) if okc else res(VIOLATED, case, 'M-F32', d, ratio=ratio))
        elif ok_a != ok_b:
            out.append(res(VIOLATED, case, 'M-F32', 'one precision raised on a low-amplitude input'))
    # an oriented image-amplitude texture (diagonal stripes 128 +- 100): the worst case for cancellation in
    # any reformulated magnitude; run for every scattering cell whatever its own input class
    if cell['kind'] in ('scat1', 'scat2') and cell['input'] != 'stripes':
        case = dict(base, check='f32 vs f64, stripes texture')
        xt64 = A64.rand_args(N, C, seed, 'stripes', f64)
        xt32 = [x.float() for x in xt64]
        xt64 = [x.double() for x in xt32]
        ok_a, ya = util.call_lib(A64.apply, xt64)
        ok_b, yb = util.call_lib(A32.apply, xt32)
        if ok_a and ok_b:
            mxt = max(float(x.abs().max()) for x in xt64)
            okc, d, ratio, _ = cmp_lists('float32 vs float64', [t.double() for t in yb], ya, 64 * e32 * (G * mxt + b))
            out.append(res(HELD, case, 'M-F32', ratio=ratio) if okc else res(VIOLATED, case, 'M-F32', d, ratio=ratio))
        elif ok_a != ok_b:
            out.append(res(VIOLATED, case, 'M-F32', 'one precision raised on the stripes texture'))
    # converted modules
    case = dict(base, check='.float() of f64-built vs f32-built')
    ok, yc = util.call_lib(A64f.apply, xs32)
    if not ok:
        out.append(res(VIOLATED, case, 'M-CONVERT', 'converted module raised %r' % (yc,)))
    else:
        okc, d, ratio, bit = cmp_lists('.float()', yc, y32, 8 * e32 * (G * mx + b))
        bad = [str(t.dtype) for t in yc if t.dtype != f32]
        if bad:
            okc, d = False, 'outputs of the .float() module have dtype %s' % bad[:2]
        out.append(res(HELD, case, 'M-CONVERT', ratio=ratio, bit_identical=bit) if okc else
                   res(VIOLATED, case, 'M-CONVERT', d, ratio=ratio))
    case = dict(base, check='.double() of f32-built vs f64-built')
    ok, yc = util.call_lib(A32d.apply, xs64)
    if not ok:
        out.append(res(VIOLATED, case, 'M-CONVERT', 'converted module raised %r' % (yc,)))
    else:
        okc, d, ratio, bit = cmp_lists('.double()', yc, y64, 64 * e32 * (G * mx + b))
        bad = [str(t.dtype) for t in yc if t.dtype != f64]
        if bad:
            okc, d = False, 'outputs of the .double() module have dtype %s' % bad[:2]
        out.append(res(HELD, case, 'M-CONVERT', ratio=ratio) if okc else res(VIOLATED, case, 'M-CONVERT', d, ratio=ratio))
    # history: a module that has already been called in one precision is converted and called again
    for src_dt, conv, xs_first, xs_after, yref, e_ in ((f64, 'float', xs64, xs32, y32, 8 * e32), (f32, 'double', xs32, xs64, y64, 64 * e32)):
        case = dict(base, check='convert after use', conversion='.%s()' % conv)
        try:
            Au = adapters.Adapter(cell, src_dt)
        except Exception as e:
            out.append(res(VIOLATED, case, 'M-CONVERT', 'construction raised %r' % (e,)))
            continue
        if not util.call_lib(Au.apply, xs_first)[0]:
            continue
        Au.mod = Au.mod.float() if conv == 'float' else Au.mod.double()
        ok, yc = util.call_lib(Au.apply, xs_after)
        if not ok:
            out.append(res(VIOLATED, case, 'M-CONVERT', 'module converted after its first use raised %r' % (yc,)))
        else:
            okc, d, ratio, bit = cmp_lists('converted after use', yc, yref, e_ * (G * mx + b))
            want = f32 if conv == 'float' else f64
            bad = [str(t.dtype) for t in yc if t.dtype != want]
            if bad:
                okc, d = False, 'outputs have dtype %s after .%s()' % (bad[:2], conv)
            out.append(res(HELD, case, 'M-CONVERT', ratio=ratio) if okc else res(VIOLATED, case, 'M-CONVERT', d, ratio=ratio))
    # strided inputs
    for dt, A, xs, yref in ((f64, A64, xs64, y64), (f32, A32, xs32, y32)):
        eps = util.EPS64 if dt == f64 else e32
        per = [views_of(x, seed) for x in xs]
        for vi in range(len(per[0])):
            name = per[0][vi][0]
            vargs = [p[vi][1] if vi < len(p) else p[0][1] for p in per]
            case = dict(base, check='strided', view=name, dtype=str(dt))
            if all(v.is_contiguous() for v in vargs) and name != 'channels-last':
                continue
            ok, yv = util.call_lib(A.apply, vargs)
            if not ok:
                out.append(res(VIOLATED, case, 'M-STRIDE', 'raised %r on a non-contiguous input' % (yv,)))
                continue
            okc, d, ratio, bit = cmp_lists(name, yv, yref, 8 * eps * (G * mx + b))
            out.append(res(HELD, case, 'M-STRIDE', ratio=ratio, bit_identical=bit) if okc else
                       res(VIOLATED, case, 'M-STRIDE', d, ratio=ratio))
        # stride-0 expand
        case = dict(base, check='strided', view='expand-stride0', dtype=str(dt))
        ex = expand_case(A, N, C, seed, dt)
        ok1, ye = util.call_lib(A.apply, ex)
        ok2, yc = util.call_lib(A.apply, [t.contiguous() for t in ex])
        if ok1 and ok2:
            m2 = max(float(t.abs().max()) for t in ex)
            okc, d, ratio, bit = cmp_lists('expand', ye, yc, 8 * eps * (G * m2 + b))
            out.append(res(HELD, case, 'M-STRIDE', ratio=ratio, bit_identical=bit) if okc else
                       res(VIOLATED, case, 'M-STRIDE', d, ratio=ratio))
        elif ok1 != ok2:
            out.append(res(VIOLATED, case, 'M-STRIDE', 'expanded input %s, contiguous copy %s' % (
                'returned' if ok1 else 'raised', 'returned' if ok2 else 'raised')))
    # None levels keep working in both precisions
    if cell.get('none_mask'):
        obs = [(dt, A, util.call_lib(A.apply, xs)) for dt, A, xs in ((f64, A64, xs64), (f32, A32, xs32), (f64, A32d, xs64), (f32, A64f, xs32))]
        all_raise_alike = all(not o[2][0] for o in obs) and len({type(o[2][1]) for o in obs}) == 1
        for dt, A, (ok, yn) in obs:
            case = dict(base, check='none-levels', dtype=str(dt), converted=A in (A32d, A64f))
            if all_raise_alike:
                # a pyramid that the transform rejects in every precision alike (shape-inconsistent once the
                # levels are absent: C10 / C11's subject) says nothing about dtypes
                out.append(res(core.SKIPPED, case, 'M-NONE', 'rejected alike in all four precisions: %s' % type(yn).__name__))
            elif not ok:
                out.append(res(VIOLATED, case, 'M-NONE', 'raised %r with None levels in %s' % (yn, dt)))
            else:
                bad = [str(t.dtype) for t in yn if t.dtype != dt]
                out.append(res(HELD, case, 'M-NONE', ratio=0.0) if not bad else
                           res(VIOLATED, case, 'M-NONE', 'output dtype %s' % bad[:1]))
    # input precision different from the module's: the call may refuse (it does on this tree), but if it
    # returns, the outputs must still have the dtype of the input.  (A refused call has touched the module's
    # own narrower filters before refusing; the op-level precision monitor is therefore not consulted for
    # these calls, only the dtype of what is returned.)
    recs = attach.drain()
    for A, xs, nm in ((A32, xs64, 'float32 module, float64 input'), (A64, xs32, 'float64 module, float32 input')):
        case = dict(base, check='mismatched precision', combo=nm)
        okm, ym = util.call_lib(A.apply, [x.clone() for x in xs])
        if not okm:
            out.append(res(HELD, case, 'M-SHAPE.dtype', 'refused: %s' % type(ym).__name__, ratio=0.0, refused=True))
            continue
        bad = [str(t.dtype) for t in ym if t.is_floating_point() and t.dtype != xs[0].dtype]
        out.append(res(VIOLATED, case, 'M-SHAPE.dtype', 'outputs of dtype %s for %s' % (sorted(set(bad)), nm)) if bad else
                   res(HELD, case, 'M-SHAPE.dtype', ratio=0.0))
    recs += [v for v in attach.drain() if v['monitor'] == 'M-SHAPE.dtype']
    # ... and whatever such a call did, the modules are what they were: the native calls repeat bit for bit
    if ok64 and ok32:
        for A, xs, y0, nm in ((A64, xs64, y64, 'float64'), (A32, xs32, y32, 'float32')):
            case = dict(base, check='module unchanged by a call in the other precision', module=nm)
            okr, yr = util.call_lib(A.apply, xs)
            if not okr:
                out.append(res(VIOLATED, case, 'M-CONVERT', 'the native call raised %r after a call in the other precision' % (yr,)))
            else:
                same = len(yr) == len(y0) and all(a.dtype == b.dtype and a.shape == b.shape and torch.equal(a, b) for a, b in zip(yr, y0))
                out.append(res(HELD, case, 'M-CONVERT', ratio=0.0) if same else
                           res(VIOLATED, case, 'M-CONVERT', 'the native %s call no longer returns what it returned before the module '
                                                            'was called with data of the other precision' % nm))
    # J = 0 (no level): the forward transforms hand the input back, whatever the module's precision
    # (SWTForward returns one tensor per level and therefore nothing for J = 0)
    if cell['kind'] in ('dwt1f', 'dwt2f') and 'J' in cell:
        import pytorch_wavelets as pw
        ctor = {'dwt1f': pw.DWT1DForward, 'dwt2f': pw.DWTForward}[cell['kind']]
        for bdt in (f32, f64):
            for xs in (xs32, xs64):
                case = dict(base, check='J=0', module=str(bdt), input=str(xs[0].dtype))
                try:
                    with util.default_dtype(bdt):
                        m0 = ctor(J=0, wave=cell['wave'], mode=cell['mode'])
                except Exception as e:
                    out.append(res(core.SKIPPED, case, 'M-SHAPE.dtype', 'J=0 not constructible: %r' % (e,)))
                    continue
                ok0, y0 = util.call_lib(m0, xs[0].clone())
                if not ok0:
                    out.append(res(core.SKIPPED, case, 'M-SHAPE.dtype', 'J=0 call raised %r' % (y0,)))
                    continue
                ts = util.flat_outputs(y0)
                bad = [str(t.dtype) for t in ts if t.dtype != xs[0].dtype]
                same = len(ts) >= 1 and ts[0].shape == xs[0].shape and bool((ts[0] == xs[0]).all())
                out.append(res(VIOLATED, case, 'M-SHAPE.dtype', 'J=0 returned dtype %s / changed values (equal=%s) for input %s' % (
                    bad, same, xs[0].dtype)) if (bad or not same) else res(HELD, case, 'M-SHAPE.dtype', ratio=0.0))
    return out + drain_attach(cell, recs)


def drain_attach(cell, recs=()):
    out = []
    seen = set()
    for v in list(recs) + attach.drain():
        if v['monitor'] not in ('M-SHAPE.dtype', 'M-DISP.precision'):
            continue            # argument / buffer immutability belongs to C15
        k = (v['monitor'], v['where'], str(v['detail'])[:80])
        if k in seen:
            continue
        seen.add(k)
        out.append(res(VIOLATED, {'cell': cell, 'check': 'attached monitor', 'where': v['where']}, v['monitor'],
                       v['detail']))
    if not out:
        out.append(res(HELD, {'cell': cell, 'check': 'attached monitors silent'}, 'M-DISP.precision',
                       'no narrower-dtype tensor produced by any ATen op in any call of this cell', ratio=0.0))
    return out


def worker_meta():
    return {'monitor_evaluations': dict(attach.COUNTS), 'ops_seen': len(attach.CENSUS),
            'aten_ops_executed': int(sum(attach.CENSUS.values()))}


def extra_cov(results, meta):
    by, bit = {}, 0
    for r in results:
        c = r['case'].get('cell')
        if c:
            by[c['kind']] = by.get(c['kind'], 0) + 1
        bit += r.get('bit_identical', 0)
    ev = {}
    ops = 0
    for m in meta:
        for k, v in (m.get('monitor_evaluations') or {}).items():
            ev[k] = ev.get(k, 0) + v
        ops += m.get('aten_ops_executed', 0)
    return {'evaluations_by_transform': by, 'bit_identical_output_comparisons': bit,
            'attached_monitor_evaluations': ev, 'aten_ops_observed_by_dispatch_monitor': ops,
            'view_classes': ['transposed-storage', 'step-slice', 'narrowed', 'channels-last', 'nc-permuted', 'expand-stride0']}
