"""C08 - scattering layers compute the defined DTCWT scattering coefficients.

Monitor M-REF on ScatLayer / ScatLayerj2 .forward: the result is compared with the composition
"NumPy reference DTCWT -> smooth magnitude sqrt(re^2+im^2+b^2)-b (jointly over the three colour
channels when requested) -> 2x2 average of lowpasses -> documented band-major channel order"
evaluated on the same array (vf/scatref.py shares no code with the library).  Sizes that are not
even / not a multiple of 8 are first extended by repeating border rows/columns in the oracle.
Monitor M-SHAPE: documented output shape.  Monitor M-NONNEG: every pure magnitude channel is
non-negative (up to a few ulp of the bias, sqrt(b*b)-b need not be exactly 0 in floating point).
"""
import numpy as np
from .. import core, refs, util, scatref
from ..core import res, HELD, VIOLATED, INCONCLUSIVE

PROP = 'C08'
RULE = ('cells = (order 1|2, biort in {near_sym_a, near_sym_b, near_sym_b_bp, antonini, legall}, q-shift '
        '(qshift_b_bp for the band-pass family), magbias in {0, 1e-6, 1e-2, 1, 10}, combine_colour on/off, '
        'HxW from 2..34 incl. odd and non-multiple-of-8, input class in {randn, zeros, impulse, sparse, const, '
        '1e4-scaled, 1e-6-scaled, dynrange}); distinct by cell; non-trivial when the input is not all-zero')
ASSUMPTIONS = ['dtcwt 0.14 NumPy forward is the reference for the linear stages', 'float64',
               'extension rule for other sizes: last row/column duplicated (order 1); first floor((8-r)/2) and '
               'last ceil((8-r)/2) rows/columns repeated (order 2)']
TIMEOUT = {'quick': 900, 'thorough': 3300}
WORKER_BUDGET = {'quick': 600, 'thorough': 2700}
MIN_HELD = {'quick': 200, 'thorough': 90000}
BIORTS = ['near_sym_a', 'near_sym_b', 'near_sym_b_bp', 'antonini', 'legall']
SIDES = [2, 3, 4, 5, 7, 8, 9, 10, 12, 13, 16, 20, 24, 29, 30, 31, 32, 34]
KINDS = ['randn', 'zeros', 'impulse', 'sparse', 'const', 'big', 'small', 'dynrange']
KF_SIDE2 = 'scatj2-side-2-cannot-be-extended-to-8'


def cells(tier, seed, salt=''):
    rnd = core.rng_for(seed, PROP, tier, salt)
    out = []
    n = 320 if tier == 'quick' else 100000
    for i in range(n):
        order = 1 if i % 2 == 0 else 2
        b = rnd.choice(BIORTS)
        q = 'qshift_b_bp' if b == 'near_sym_b_bp' else rnd.choice(['qshift_a', 'qshift_b', 'qshift_c', 'qshift_d', 'qshift_06'])
        colour = rnd.random() < 0.35
        h, w = rnd.choice(SIDES), rnd.choice(SIDES)
        if order == 2 and rnd.random() < 0.5:
            h, w = rnd.choice([8, 16, 24, 32]), rnd.choice([8, 16, 24])
        out.append({'order': order, 'biort': b, 'qshift': q, 'magbias': rnd.choice([0.0, 1e-6, 1e-2, 1e-2, 1.0, 10.0]),
                    'colour': colour, 'shape': [h, w], 'N': rnd.choice([1, 2]), 'C': 3 if colour else rnd.choice([1, 2, 3, 4]),
                    'kind': rnd.choice(KINDS)})
    return out


def build(cell):
    import torch
    import pytorch_wavelets as pw
    with util.default_dtype(torch.float64):
        if cell['order'] == 1:
            return pw.ScatLayer(biort=cell['biort'], magbias=cell['magbias'], combine_colour=cell['colour'],
                                mode=cell.get('mode', 'symmetric'))
        return pw.ScatLayerj2(biort=cell['biort'], qshift=cell['qshift'], magbias=cell['magbias'],
                              combine_colour=cell['colour'])


def make_x(cell, seed, dtype=None):
    import torch
    shp = [cell['N'], cell['C']] + cell['shape']
    k = cell['kind']
    g = util.gen(seed, 'x', str(cell))
    if k == 'zeros':
        x = torch.zeros(shp, dtype=torch.float64)
    elif k == 'impulse':
        x = torch.zeros(shp, dtype=torch.float64)
        x.view(-1)[int(torch.randint(0, x.numel(), (1,), generator=g))] = 1.0
    elif k == 'sparse':
        x = torch.randn(shp, generator=g, dtype=torch.float64) * (torch.rand(shp, generator=g, dtype=torch.float64) < 0.1)
    elif k == 'const':
        x = torch.full(shp, 2.5, dtype=torch.float64)
    elif k == 'big':
        x = torch.randn(shp, generator=g, dtype=torch.float64) * 1e4
    elif k == 'small':
        x = torch.randn(shp, generator=g, dtype=torch.float64) * 1e-6
    elif k == 'dynrange':
        x = util.make_input('dynrange', shp, seed)
    else:
        x = torch.randn(shp, generator=g, dtype=torch.float64)
    return x


def expected_shape(cell):
    N, C = cell['N'], cell['C']
    H, W = cell['shape']
    if cell['order'] == 1:
        ch = 9 if cell['colour'] else 7 * C
        return [N, ch, (H + 1) // 2, (W + 1) // 2]
    ch = 51 if cell['colour'] else 49 * C
    return [N, ch, (H + 7) // 8 * 2, (W + 7) // 8 * 2]


def magnitude_channels(cell, z):
    """the pure magnitude channels of the output (N, ch, h, w) as one array"""
    C = cell['C']
    if cell['order'] == 1:
        return z[:, (3 if cell['colour'] else C):]
    if cell['colour']:
        return z[:, 9:]
    s = z.shape
    return z.reshape(s[0], 49, C, s[2], s[3])[:, 7:]


def judge(cell, x, ok, z):
    case = {'cell': cell}
    out = []
    kf = KF_SIDE2 if (cell['order'] == 2 and 2 in cell['shape']) else None
    if not ok:
        return [res(VIOLATED, case, 'M-REF', 'layer raised %r' % (z,), kf_key=kf)]
    want = expected_shape(cell)
    if list(z.shape) != want:
        return [res(VIOLATED, case, 'M-SHAPE', 'output shape %s, documented %s' % (list(z.shape), want), kf_key=kf)]
    out.append(res(HELD, case, 'M-SHAPE', ratio=0.0))
    xn = util.np64(x)
    b = cell['magbias']
    try:
        if cell['order'] == 1:
            ref = scatref.scat1(xn, cell['biort'], b, cell['colour'])
        else:
            ref = scatref.scat2(xn, cell['biort'], cell['qshift'], b, cell['colour'])
    except Exception as e:
        out.append(res(INCONCLUSIVE, case, 'M-REF', 'reference raised %r' % (e,)))
        return out
    G = scatref.stage_gain(cell['biort'], cell['qshift'], cell['order'])
    tol = 1e-10 * (G * float(np.abs(xn).max()) + b) + 1e-300
    okc, d, ratio = util.compare('Z', z, ref, tol)
    out.append(res(HELD, case, 'M-REF', ratio=ratio) if okc else res(VIOLATED, case, 'M-REF', d, ratio=ratio, kf_key=kf))
    m = util.np64(magnitude_channels(cell, z))
    lo = float(m.min()) if m.size else 0.0
    floor = -8 * util.EPS64 * max(b, float(np.abs(xn).max()) * G, 1e-300)
    out.append(res(HELD, case, 'M-NONNEG', 'min magnitude %.3e' % lo, ratio=(max(-lo, 0.0) / -floor)) if lo >= floor else
               res(VIOLATED, case, 'M-NONNEG', 'magnitude channel value %.3e < 0' % lo))
    return out


def run_cell(cell, seed):
    ok, mod = util.call_lib(build, cell)
    if not ok:
        return [res(VIOLATED, {'cell': cell}, 'M-REF', 'constructor raised %r' % (mod,))]
    x = make_x(cell, seed)
    ok, z = util.call_lib(mod, x)
    out = judge(cell, x, ok, z)
    if ok and core.rng_for(seed, PROP, 'ng', str(cell)).random() < 0.5:
        # the same input with autograd recording (requires_grad) and inside torch.no_grad(): same values
        ok2, z2 = util.call_lib(mod, x.clone().requires_grad_(True))
        ok3, z3 = util.call_lib_nograd(mod, x)
        ok4, z4 = util.call_lib_eval(mod, x)
        for nm, okk, zz in (('requires_grad input', ok2, z2), ('torch.no_grad()', ok3, z3), ('module in eval() mode', ok4, z4)):
            rs = judge(dict(cell), x, okk, zz.detach() if okk else zz)
            for r in rs:
                r['case'] = dict(r['case'], context=nm)
            out.extend(rs)
    return out


def nontrivial(r):
    return r['monitor'] == 'M-REF' and r['case']['cell']['kind'] != 'zeros'


def extra_cov(results, meta):
    strata = {}
    for r in results:
        c = r['case'].get('cell')
        if c and r['monitor'] == 'M-REF':
            k = 'order%d/%s/%s/%s' % (c['order'], c['biort'], 'colour' if c['colour'] else 'grey',
                                      'aligned' if all(s % (2 if c['order'] == 1 else 8) == 0 for s in c['shape']) else 'extended')
            strata[k] = strata.get(k, 0) + 1
    return {'strata': strata, 'input_classes': sorted(set(r['case']['cell']['kind'] for r in results if r['case'].get('cell')))}
