"""C01 - DWT analysis equals PyWavelets (1-D and 2-D).

Monitor M-REF: every observed DWT1DForward/DWTForward call is compared with pywt.wavedec /
wavedec2 evaluated on the very same array (shapes exactly, values to ~1e-11 relative).
Impulse batches give the whole operator of a cell; the taint monitor (M-DISP.linear) certifies
the executed op stream is linear with input-independent control flow, so agreement on the basis
extends to every input of that cell.
"""
import numpy as np
import pywt
from .. import core, refs, util
from ..core import res, HELD, VIOLATED, INCONCLUSIVE

PROP = 'C01'
RULE = ('cells = (dim, wavelet, mode, J, spatial shape) drawn from all 106 pywt discrete wavelets x 5 '
        'modes x hostile sizes (2..20, around powers of two, around the filter length, odd, '
        'non-square); per cell one impulse-batch execution (whole operator) and dense / '
        'dynamic-range / structured inputs; a case is distinct by (cell, input kind) and '
        'non-trivial when the input is not all-zero and the reference returned'
        '; wave argument given as name / pywt.Wavelet object / pair of lists / pair of arrays / 4-tuple; user-defined 2/4/6-tap banks (rotation, lazy, random) against pywt with a custom Wavelet; batch and channel counts incl. 4 and 16..65; one module call in three made inside torch.no_grad() / set_grad_enabled(False); reload histories')
ASSUMPTIONS = ['PyWavelets 1.10 wavedec/wavedec2 is the specification',
               'float64 run; tolerance 1e-11 * (filter l1 gain)^(J*dim) * max|x|',
               'sizes bounded (1-D <= 130, 2-D sides <= 33), J <= 4']
TIMEOUT = {'quick': 900, 'thorough': 3000}
WORKER_BUDGET = {'quick': 600, 'thorough': 2400}
MIN_HELD = {'quick': 300, 'thorough': 40351}
KF_PER = 'periodization-level-shorter-than-filter'


def level_lengths(n, L, mode, J):
    """input length of every level 0..J-1 (what the level's filter bank sees)"""
    out = []
    for _ in range(J):
        out.append(n)
        n = pywt.dwt_coeff_len(n, L, mode)
    return out


def in_d7(lens, L, mode):
    return mode == 'periodization' and any(n + n % 2 < L for n in lens)


def lengths_pool(L):
    s = set(range(2, 21)) | {31, 32, 33, 63, 64, 65, 127} | {L - 1, L, L + 1, 2 * L - 1, 2 * L + 1}
    return sorted(n for n in s if 2 <= n <= 130)


SIDES = [2, 3, 4, 5, 7, 8, 9, 12, 13, 16, 17]
BIG = [31, 32, 33]


def cells(tier, seed):
    rnd = core.rng_for(seed, PROP, tier)
    out = []
    waves = refs.all_wavelets()
    n1 = 3 if tier == 'quick' else 40
    n2 = 1 if tier == 'quick' else 30
    for w in waves:
        L = refs.flen(w)
        pool = lengths_pool(L)
        for mode in refs.MODES:
            short = [n for n in pool if n < L] or pool[:3]
            odd = [n for n in pool if n % 2 == 1]
            picks = {rnd.choice(short), rnd.choice(odd), rnd.choice(pool)}
            while len(picks) < min(n1, len(pool)):
                picks.add(rnd.choice(pool))
            for n in sorted(picks):
                out.append({'dim': 1, 'wave': w, 'mode': mode, 'J': rnd.choice([1, 1, 2, 3, 4]),
                            'shape': [n], 'N': rnd.choice([1, 2, 3]), 'C': rnd.choice([1, 2, 3, 4, 5])})
            for _ in range(n2):
                h, wd = rnd.choice(SIDES), rnd.choice(SIDES)
                if h == wd:
                    wd = rnd.choice([s for s in SIDES if s != h])
                out.append({'dim': 2, 'wave': w, 'mode': mode, 'J': rnd.choice([1, 1, 2, 3]),
                            'shape': [h, wd], 'N': rnd.choice([1, 2, 4]), 'C': rnd.choice([1, 2, 3, 4])})
            if tier == 'thorough' or rnd.random() < 0.25:
                out.append({'dim': 2, 'wave': w, 'mode': mode, 'J': rnd.choice([1, 2, 3, 4]),
                            'shape': [rnd.choice(BIG), rnd.choice(BIG + [16, 17])], 'N': 1, 'C': 2,
                            'noimp': True})
    # the long-signal regime (more than 2^14 samples along an axis) is sampled by a few cells
    for mode in refs.MODES:
        for _ in range(1 if tier == 'quick' else 4):
            w = rnd.choice([v for v in waves if 4 <= refs.flen(v) <= 20])
            out.append({'dim': 1, 'wave': w, 'mode': mode, 'J': rnd.choice([1, 2, 3]), 'shape': [rnd.randrange(17000, 50000)],
                        'N': 1, 'C': 2, 'noimp': True})
        w = rnd.choice([v for v in waves if 4 <= refs.flen(v) <= 12])
        tall = [rnd.randrange(17000, 30000), rnd.choice([3, 4, 6])]
        out.append({'dim': 2, 'wave': w, 'mode': mode, 'J': rnd.choice([1, 2]), 'shape': tall if rnd.random() < 0.5 else tall[::-1],
                    'N': 1, 'C': 1, 'noimp': True})
    for _ in range(8 if tier == 'quick' else 160):        # many channels / wide batches
        big = rnd.choice([32, 33, 64])
        N, C = (1, big) if rnd.random() < 0.7 else (big, 1)
        w = rnd.choice([v for v in waves if refs.flen(v) <= 12])
        if rnd.random() < 0.5:
            out.append({'dim': 1, 'wave': w, 'mode': rnd.choice(refs.MODES), 'J': rnd.choice([1, 2, 3]),
                        'shape': [rnd.choice([9, 16, 21])], 'N': N, 'C': C})
        else:
            out.append({'dim': 2, 'wave': w, 'mode': rnd.choice(refs.MODES), 'J': rnd.choice([1, 2]),
                        'shape': [rnd.choice([6, 9, 12]), rnd.choice([7, 10])], 'N': N, 'C': C})
    # user-defined filter banks (a custom pywt.Wavelet / a pair of arrays): "every wavelet" includes taps that
    # have none of the structure of the named families (no Haar shape, no orthogonality, no symmetry)
    import math
    for i in range(10 if tier == 'quick' else 200):
        L = rnd.choice([2, 2, 4, 6])
        if L == 2 and rnd.random() < 0.6:
            t = rnd.uniform(0.1, 1.4)
            lo, hi = ([math.cos(t), math.sin(t)], [math.sin(t), -math.cos(t)]) if rnd.random() < 0.7 else ([1.0, 0.0], [0.0, 1.0])
            bank = [lo, hi, lo[::-1], hi[::-1]]
        else:
            bank = [[round(rnd.gauss(0, 1), 6) for _ in range(L)] for _ in range(4)]
        if rnd.random() < 0.5:
            out.append({'dim': 1, 'wave': bank, 'mode': rnd.choice(refs.MODES), 'J': rnd.choice([1, 2, 3]),
                        'shape': [rnd.choice([5, 8, 9, 16, 21])], 'N': rnd.choice([1, 2]), 'C': rnd.choice([1, 2, 3]), 'custom': True})
        else:
            out.append({'dim': 2, 'wave': bank, 'mode': rnd.choice(refs.MODES), 'J': rnd.choice([1, 2]),
                        'shape': [rnd.choice([6, 9, 12]), rnd.choice([7, 10])], 'N': rnd.choice([1, 2]), 'C': rnd.choice([1, 2]), 'custom': True})
    short = [w for w in waves if refs.flen(w) <= 20]
    for c in out:
        if c.get('custom'):
            continue
        if c['mode'] == 'periodization' and rnd.random() < 0.2:
            c['spelling'] = 'per'
        if c['dim'] == 2 and rnd.random() < 0.12:
            # separate column / row wavelets (4-tuple form of the constructor)
            c['wave_row'] = rnd.choice([w for w in short if w != c['wave']])
    rnd.shuffle(out)
    return out


WAVE_FORMS = {}


def wave_arg(cell, synthesis):
    """the `wave` constructor argument in one of its documented forms: a name, a pywt.Wavelet object, a pair
    (lo, hi) of lists or arrays, or a 4-tuple (col_lo, col_hi, row_lo, row_hi).  The form is a deterministic
    function of the cell, so forward and inverse builders and replays agree."""
    if not cell.get('wave_row'):
        import hashlib
        h = int(hashlib.sha256(repr(sorted((k, str(v)) for k, v in cell.items())).encode()).hexdigest()[:6], 16) % 10
        form = {0: 'object', 1: 'object', 2: 'pair of lists', 3: 'pair of arrays'}.get(h, 'name')
        if not isinstance(cell['wave'], str):
            form = 'object' if h % 2 else 'pair of arrays'        # a user-defined bank has no name
        WAVE_FORMS[form] = WAVE_FORMS.get(form, 0) + 1
        if form == 'name':
            return cell['wave']
        w = refs.wavelet(cell['wave'])
        if form == 'object':
            return w
        lo, hi = (w.rec_lo, w.rec_hi) if synthesis else (w.dec_lo, w.dec_hi)
        return (list(lo), list(hi)) if form == 'pair of lists' else (np.array(lo), np.array(hi))
    WAVE_FORMS['4-tuple'] = WAVE_FORMS.get('4-tuple', 0) + 1
    wc, wr = pywt.Wavelet(cell['wave']), pywt.Wavelet(cell['wave_row'])
    if synthesis:
        return tuple(np.array(f) for f in (wc.rec_lo, wc.rec_hi, wr.rec_lo, wr.rec_hi))
    return tuple(np.array(f) for f in (wc.dec_lo, wc.dec_hi, wr.dec_lo, wr.dec_hi))


def axis_flens(cell):
    if cell.get('filters'):
        return [len(cell['filters'][0])] * cell['dim']
    if cell['dim'] == 1:
        return [refs.flen(cell['wave'])]
    return [refs.flen(cell['wave']), refs.flen(cell.get('wave_row') or cell['wave'])]


def total_gain(cell, synthesis=False):
    g = refs.l1gain(cell['wave'], synthesis)
    if cell['dim'] == 2:
        g *= refs.l1gain(cell.get('wave_row') or cell['wave'], synthesis)
    return g ** cell['J']


def lib_mode(cell):
    # 'per' is the library's (and pywt's) short spelling of 'periodization'
    return 'per' if (cell['mode'] == 'per' or cell.get('spelling') == 'per') else cell['mode']


def build(cell, dtype=None):
    import torch
    import pytorch_wavelets as pw
    with util.default_dtype(dtype or torch.float64):
        if cell['dim'] == 1:
            return pw.DWT1DForward(J=cell['J'], wave=wave_arg(cell, False), mode=lib_mode(cell))
        return pw.DWTForward(J=cell['J'], wave=wave_arg(cell, False), mode=lib_mode(cell))


def reference(cell, x):
    if cell['dim'] == 1:
        return refs.wavedec1(x, cell['wave'], cell['mode'], cell['J'])
    return refs.wavedec2(x, cell['wave'], cell.get('wave_row') or cell['wave'], cell['mode'], cell['J'])


def judge(cell, kind, x, ok, out, L, tolc=1e-11):
    """M-REF + M-SHAPE for one observed forward call"""
    case = {'cell': cell, 'input': kind}
    Ls = axis_flens(cell)
    lens = [level_lengths(n, La, cell['mode'], cell['J']) for n, La in zip(cell['shape'], Ls)]
    d7 = any(in_d7(l, La, cell['mode']) for l, La in zip(lens, Ls))
    kf = KF_PER if d7 else None
    xn = util.np64(x)
    try:
        ryl, ryh = reference(cell, xn)
    except Exception as e:
        if not ok:
            return res(HELD, case, 'M-REF', 'both the reference and the library reject this input', ratio=0.0,
                       raised=True)
        return res(INCONCLUSIVE, case, 'M-REF', 'reference raised %r' % (e,))
    if not ok:
        short = cell['mode'] == 'reflect' and any(n < La for l, La in zip(lens, Ls) for n in l)
        if short:
            return res(HELD, case, 'M-REF', 'raised in reflect mode on a signal shorter than the filter (allowed)',
                       ratio=0.0, raised=True)
        return res(VIOLATED, case, 'M-REF', 'library raised %r where the reference returns' % (out,),
                   kf_key=kf)
    try:
        yl, yh = out
        if len(yh) != cell['J']:
            return res(VIOLATED, case, 'M-SHAPE', 'returned %d detail levels, J=%d' % (len(yh), cell['J']))
        items = [('yl', yl, ryl)] + [('yh[%d]' % j, yh[j], ryh[j]) for j in range(cell['J'])]
    except Exception as e:
        return res(VIOLATED, case, 'M-SHAPE', 'result is not a (yl, [yh]) pyramid: %r' % (e,))
    G = total_gain(cell)
    tol = tolc * G * max(float(np.max(np.abs(xn))), 1e-300)
    okc, detail, ratio = util.compare_many(items, tol)
    if okc:
        return res(HELD, case, 'M-REF', ratio=ratio)
    return res(VIOLATED, case, 'M-REF', detail, ratio=ratio, kf_key=kf)


def run_cell(cell, seed):
    import torch
    out = []
    L = refs.flen(cell['wave'])
    mod = build(cell)
    sp = cell['shape']
    nimp = int(np.prod(sp))
    kinds = []
    if not cell.get('noimp'):
        kinds.append('impulse')
    rnd = core.rng_for(seed, PROP, 'kinds', str(cell))
    kinds += ['randn', rnd.choice(['dynrange', 'const', 'alt', 'outlier', 'ramp'])]
    for kind in kinds:
        if kind == 'impulse':
            x = util.impulses(sp)
        else:
            x = util.make_input(kind, [cell['N'], cell['C']] + sp, seed)
        ok, y = util.call_lib(mod, x)
        out.append(judge(cell, kind, x, ok, y, L))
        if kind == 'randn':
            ok, y = util.call_lib_nograd(mod, x)
            out.append(judge(cell, 'randn under torch.no_grad()', x, ok, y, L))
            ok, y = util.call_lib_eval(mod, x)
            out.append(judge(cell, 'randn, module in eval() mode', x, ok, y, L))
            ok, y = util.call_lib(mod, util.channel_sliced(x))
            out.append(judge(cell, 'randn as a channel-sliced (non-contiguous) view', x, ok, y, L))
    if not cell.get('noimp') and core.rng_for(seed, PROP, 'reload', str(cell)).random() < 0.34:
        out.extend(reload_history(cell, seed))
    # generalisation certificate for this cell
    x = util.make_input('randn', [1, 1] + sp, seed)
    z = torch.zeros_like(x)
    if not util.call_lib(mod, x)[0]:
        return out            # the call raises (reflect, short signal): nothing to certify
    try:
        st, detail, info = util.linear_certificate(lambda t: mod(t), [x], [z])
    except Exception as e:
        st, detail, info = 'raised', repr(e), {}
    case = {'cell': cell, 'input': 'certificate'}
    if st == 'certified':
        out.append(res(HELD, case, 'M-DISP.linear', info))
    else:
        out.append(res(INCONCLUSIVE, case, 'M-DISP.linear', '%s: %s' % (st, detail)))
    return out


_SAME = {}


def same_length_other(wave):
    if not isinstance(wave, str):
        return None
    if not _SAME:
        for w in refs.all_wavelets():
            _SAME.setdefault(refs.flen(w), []).append(w)
    c = [w for w in _SAME[refs.flen(wave)] if w != wave and pywt.Wavelet(w).dec_lo != pywt.Wavelet(wave).dec_lo]
    return c[0] if c else None


def reload_history(cell, seed):
    """history: use the module, overwrite its filter buffers in place with other taps of the same
    length (load_state_dict), use it again: the values must follow the new taps"""
    other = same_length_other(cell['wave'])
    if other is None or cell.get('wave_row'):
        return []
    cell2 = dict(cell, wave=other, reloaded_from=cell['wave'])
    mod = build(cell)
    sp = cell['shape']
    xs = {'reload-impulse': util.impulses(sp), 'reload-randn': util.make_input('randn', [cell['N'], cell['C']] + sp, seed + 31)}
    for x in xs.values():
        if not util.call_lib(mod, x)[0]:
            return []
    if not util.reload_in_place(mod, build(cell2)):
        return [res(INCONCLUSIVE, {'cell': cell2, 'input': 'reload'}, 'M-REF', 'in-place reload of the filter buffers refused')]
    out = []
    L = refs.flen(other)
    for kind, x in xs.items():
        ok, y = util.call_lib(mod, x)
        out.append(judge(cell2, kind, x, ok, y, L))
    return out


def nontrivial(r):
    return r['monitor'] == 'M-REF' and not r.get('raised')


def extra_cov(results, meta):
    waves = set()
    modes = set()
    strata = {}
    for r in results:
        c = r['case'].get('cell')
        if not c or r['monitor'] != 'M-REF':
            continue
        waves.add(c['wave'] if isinstance(c['wave'], str) else 'user-defined bank of %d taps' % len(c['wave'][0]))
        modes.add(c['mode'])
        L = refs.flen(c['wave'])
        k = '%dd/%s/%s/%s' % (c['dim'], c['mode'], 'short' if min(c['shape']) < L else 'long',
                              'odd' if any(s % 2 for s in c['shape']) else 'even')
        strata[k] = strata.get(k, 0) + 1
    cert = sum(1 for r in results if r['monitor'] == 'M-DISP.linear' and r['status'] == HELD)
    raised = sum(1 for r in results if r.get('raised'))
    return {'wavelets_covered': len(waves), 'modes_covered': sorted(modes), 'strata': strata,
            'cells_certified_linear': cert, 'allowed_reflect_raises_observed': raised}
