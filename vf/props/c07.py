"""C07 - transforms are linear and act per (batch, channel) slice.

Monitors on executions of DWT 1-D/2-D forward+inverse, SWT and DTCWT forward+inverse:
  M-DISP.linear  structural: dynamic taint tracking on the ATen op stream of the real call - every
                 operator consuming input-dependent data must be linear in it, nothing reads input
                 data into Python, and the op trace is identical for two different inputs of the same
                 shape ("no data-dependent operation" by observation).  A refuted certificate is a
                 violation here;
  M-SUPER        T(a x + b y) = a T(x) + b T(y) for random a, b;  T(0) is bit-zero;
  M-SLICE        a batch whose (n, c) slices are distinct signatures is transformed once as (N,C,...)
                 and once slice by slice: per-slice outputs agree within a rounding-level bound (bit
                 identity counted, not demanded);
  M-LEAK         re-randomising every slice but one leaves that slice's output unchanged.
"""
import numpy as np
import pywt
from .. import core, refs, util, adapters
from ..core import res, HELD, VIOLATED, INCONCLUSIVE

PROP = 'C07'
RULE = ('cells = (transform in {DWT1D fwd/inv, DWT2D fwd/inv, SWT, DTCWT fwd/inv}, configuration (wavelet x '
        'mode x J | filter pair x J), spatial shape incl. odd, N in {1,2,3,5}, C in {1,2,3,4,7}); per cell the '
        'taint certificate, superposition with random scalars, T(0), slice-by-slice vs batched, leak test; '
        'distinct by (cell, check); non-trivial when inputs are dense random'
        '; plus cells with 16..65 channels or batch items; non-finite values in neighbouring slices; scalars 1e-12 / 1e12; slices of magnitude 1e-9 .. 1e9')
ASSUMPTIONS = ['float64', 'bounds 64*eps*gain*max|x|; bit-identity of batched vs per-slice results is reported, not demanded']
TIMEOUT = {'quick': 900, 'thorough': 3300}
WORKER_BUDGET = {'quick': 600, 'thorough': 2700}
MIN_HELD = {'quick': 400, 'thorough': 87651}
KINDS = ['dwt1f', 'dwt1i', 'dwt2f', 'dwt2i', 'swt', 'dtf', 'dti']
NS, CS = [1, 2, 3, 4, 5, 6], [1, 2, 3, 4, 6, 7]


def cells(tier, seed):
    rnd = core.rng_for(seed, PROP, tier)
    out = []
    n = 45 if tier == 'quick' else 8000
    for kind in KINDS:
        for _ in range(n):
            c = adapters.random_config(kind, rnd)
            c['N'], c['C'] = rnd.choice(NS), rnd.choice(CS)
            out.append(c)
        # "whatever the batch size and channel count": a few wide batches / many-channel inputs per kind
        # (sizes at which grouped convolutions are commonly replaced by other kernels)
        for _ in range(3 if tier == 'quick' else 120):
            c = adapters.random_config(kind, rnd)
            if rnd.random() < 0.75:
                c['N'], c['C'] = rnd.choice([1, 2]), rnd.choice([16, 17, 32, 33, 40, 64, 65])
            else:
                c['N'], c['C'] = rnd.choice([16, 33, 64]), rnd.choice([1, 2])
            if kind in ('dtf', 'dti') and rnd.random() < 0.7:
                c['J'] = max(c.get('J', 1), 2)
            out.append(c)
    rnd.shuffle(out)
    return out


Adapter = adapters.Adapter


def run_cell(cell, seed):
    import torch
    out = []
    ok, ad = util.call_lib(Adapter, cell)
    if not ok:
        return [res(INCONCLUSIVE, {'cell': cell}, 'M-SUPER', 'adapter construction raised %r' % (ad,))]
    N, C = cell['N'], cell['C']
    xs = ad.rand_args(N, C, seed)
    ok, yx = util.call_lib(ad.apply, xs)
    if not ok:
        if cell.get('mode') == 'reflect':
            return [res(core.SKIPPED, {'cell': cell}, 'M-SUPER', 'reflect on a short signal raises')]
        return [res(VIOLATED, {'cell': cell}, 'M-SUPER', 'transform raised %r' % (yx,))]
    G = ad.gain
    mx = max(float(a.abs().max()) for a in xs)
    # (i) structural certificate
    case = {'cell': cell, 'check': 'certificate'}
    zs = [torch.zeros_like(a) for a in xs]
    st, detail, info = util.linear_certificate(lambda *t: ad.apply(list(t)), [a.clone() for a in xs], zs)
    if st == 'certified':
        out.append(res(HELD, case, 'M-DISP.linear', info))
    elif st == 'refuted':
        out.append(res(VIOLATED, case, 'M-DISP.linear', 'op stream is not linear in the input: %s' % (detail,)))
    else:
        out.append(res(INCONCLUSIVE, case, 'M-DISP.linear', '%s: %s' % (st, detail)))
    # (ii) superposition and T(0)
    case = {'cell': cell, 'check': 'superposition'}
    ys_in = ad.rand_args(N, C, seed + 101)
    rnd = core.rng_for(seed, PROP, 'ab', str(cell))
    a, b = rnd.uniform(-3, 3), rnd.uniform(-3, 3)
    ok1, yy = util.call_lib(ad.apply, ys_in)
    ok2, yc = util.call_lib(ad.apply, [a * p + b * q for p, q in zip(xs, ys_in)])
    if not (ok1 and ok2):
        out.append(res(VIOLATED, case, 'M-SUPER', 'transform raised on a linear combination'))
    else:
        tol = 64 * util.EPS64 * G * (abs(a) + abs(b)) * mx * 2
        okc, d, ratio = util.compare_many([('out[%d]' % i, c_, util.np64(a * p + b * q))
                                           for i, (c_, p, q) in enumerate(zip(yc, yx, yy))], tol)
        out.append(res(HELD, case, 'M-SUPER', ratio=ratio) if okc else res(VIOLATED, case, 'M-SUPER', d, ratio=ratio))
    if len(xs) > 1:
        # block superposition: x keeps some arguments and has exact zeros elsewhere, y the complement
        case = {'cell': cell, 'check': 'block-superposition'}
        keep = [rnd.random() < 0.5 for _ in xs]
        if all(keep) or not any(keep):
            keep[0] = not keep[0]
        xa = [p if k else torch.zeros_like(p) for p, k in zip(xs, keep)]
        xb = [torch.zeros_like(p) if k else p for p, k in zip(xs, keep)]
        oka, ya = util.call_lib(ad.apply, xa)
        okb, yb = util.call_lib(ad.apply, xb)
        if not (oka and okb):
            out.append(res(VIOLATED, case, 'M-SUPER', 'transform raised on a pyramid with exactly-zero entries: %r' % (
                (ya if not oka else yb),)))
        else:
            if any(tuple(u.shape) != tuple(w.shape) for u, w in zip(ya, yx)) or any(tuple(u.shape) != tuple(w.shape) for u, w in zip(yb, yx)):
                out.append(res(VIOLATED, case, 'M-SUPER', 'output shape depends on which entries are exactly zero: %s / %s vs %s' % (
                    [tuple(u.shape) for u in ya], [tuple(u.shape) for u in yb], [tuple(u.shape) for u in yx])))
            else:
                okc, d, ratio = util.compare_many([('out[%d]' % i, u + w, util.np64(f)) for i, (u, w, f) in enumerate(zip(ya, yb, yx))],
                                                  64 * util.EPS64 * G * mx * 2)
                out.append(res(HELD, case, 'M-SUPER', ratio=ratio) if okc else res(VIOLATED, case, 'M-SUPER', d, ratio=ratio))
    # homogeneity with extreme scalars: thresholds / clamps / "negligible" shortcuts are not linear
    for cfac in (1e-12, 1e12):
        case = {'cell': cell, 'check': 'homogeneity', 'scalar': cfac}
        okc_, ycs = util.call_lib(ad.apply, [cfac * p for p in xs])
        if not okc_:
            out.append(res(VIOLATED, case, 'M-SUPER', 'transform raised on the input scaled by %g' % cfac))
        else:
            okc, d, ratio = util.compare_many([('out[%d]' % i, u, cfac * util.np64(w)) for i, (u, w) in enumerate(zip(ycs, yx))],
                                              64 * util.EPS64 * G * mx * cfac)
            out.append(res(HELD, case, 'M-SUPER', ratio=ratio) if okc else res(VIOLATED, case, 'M-SUPER', d, ratio=ratio))
    case = {'cell': cell, 'check': 'T(0)'}
    ok0, y0 = util.call_lib(ad.apply, zs)
    if not ok0:
        out.append(res(VIOLATED, case, 'M-SUPER', 'transform raised on the zero input'))
    else:
        nz = max(float(t.abs().max()) for t in y0)
        out.append(res(HELD, case, 'M-SUPER', ratio=0.0) if nz == 0.0 else
                   res(VIOLATED, case, 'M-SUPER', 'T(0) has an entry of magnitude %.3e' % nz))
    # (iii) slice by slice vs batched
    case = {'cell': cell, 'check': 'slices'}
    tol = 8 * util.EPS64 * G * mx
    worst, fail, bit = 0.0, None, 0
    for n in range(N):
        for c in range(C):
            ok1, y1 = util.call_lib(ad.apply, [t[n:n + 1, c:c + 1].clone() for t in xs])
            if not ok1:
                fail = fail or 'transform raised on the single slice (%d,%d)' % (n, c)
                continue
            for i, (full, one) in enumerate(zip(yx, y1)):
                sl = full[n:n + 1, c:c + 1]
                if tuple(sl.shape) == tuple(one.shape) and torch.equal(sl, one):
                    bit += 1
                    continue
                okc, d, ratio = util.compare('slice (%d,%d) out[%d]' % (n, c, i), sl, util.np64(one), tol)
                worst = max(worst, ratio)
                if not okc and fail is None:
                    fail = d
    out.append(res(HELD, case, 'M-SLICE', ratio=worst, bit_identical=bit) if fail is None else
               res(VIOLATED, case, 'M-SLICE', fail, ratio=worst))
    # slices of wildly different magnitude in one batch: each slice must still be transformed as if alone
    if N * C > 1:
        case = {'cell': cell, 'check': 'slice-scales'}
        sc = torch.tensor([10.0 ** rnd.choice([-9, -6, -3, 0, 3, 6, 9]) for _ in range(N * C)], dtype=torch.float64).reshape(N, C)
        sc[rnd.randrange(N), rnd.randrange(C)] = 1e9
        sc.view(-1)[rnd.randrange(N * C)] = 1e-9
        xsc = [t * sc.reshape([N, C] + [1] * (t.dim() - 2)) for t in xs]
        okb, yb = util.call_lib(ad.apply, xsc)
        if not okb:
            out.append(res(VIOLATED, case, 'M-SLICE', 'transform raised on a batch with slice-dependent scales'))
        else:
            worst, fail = 0.0, None
            for n in range(N):
                for c in range(C):
                    for i, (full, base_) in enumerate(zip(yb, yx)):
                        f = float(sc[n, c])
                        okc, d, ratio = util.compare('slice (%d,%d) scaled by %g out[%d]' % (n, c, f, i), full[n, c],
                                                     f * util.np64(base_[n, c]), 64 * util.EPS64 * G * mx * f)
                        worst = max(worst, ratio)
                        if not okc and fail is None:
                            fail = d
            out.append(res(HELD, case, 'M-SLICE', ratio=worst) if fail is None else res(VIOLATED, case, 'M-SLICE', fail, ratio=worst))
    # leak test
    if N * C > 1:
        case = {'cell': cell, 'check': 'leak'}
        kn, kc = rnd.randrange(N), rnd.randrange(C)
        xs2 = ad.rand_args(N, C, seed + 303)
        for t2, t1 in zip(xs2, xs):
            t2[kn, kc] = t1[kn, kc]
        ok2, y2 = util.call_lib(ad.apply, xs2)
        if not ok2:
            out.append(res(VIOLATED, case, 'M-LEAK', 'transform raised %r' % (y2,)))
        else:
            okc, d, ratio = util.compare_many([('out[%d] kept slice' % i, u[kn, kc], util.np64(v[kn, kc]))
                                               for i, (u, v) in enumerate(zip(y2, yx))], tol)
            out.append(res(HELD, case, 'M-LEAK', ratio=ratio) if okc else res(VIOLATED, case, 'M-LEAK', d, ratio=ratio))
        # ... also when the other slices hold non-finite values (0*inf = nan would leak through a dense weight)
        case = {'cell': cell, 'check': 'leak-nonfinite'}
        xs3 = [t.clone() for t in xs]
        for t3, t1 in zip(xs3, xs):
            t3[:] = float('inf')
            t3.view(t3.shape[0], t3.shape[1], -1)[:, :, ::3] = float('nan')
            t3[kn, kc] = t1[kn, kc]
        ok3, y3 = util.call_lib(ad.apply, xs3)
        if not ok3:
            out.append(res(VIOLATED, case, 'M-LEAK', 'transform raised %r' % (y3,)))
        else:
            okc, d, ratio = util.compare_many([('out[%d] kept slice' % i, u[kn, kc], util.np64(v[kn, kc]))
                                               for i, (u, v) in enumerate(zip(y3, yx))], tol)
            out.append(res(HELD, case, 'M-LEAK', ratio=ratio) if okc else res(VIOLATED, case, 'M-LEAK', d, ratio=ratio))
    return out


def extra_cov(results, meta):
    by = {}
    bit = 0
    for r in results:
        c = r['case'].get('cell')
        if c:
            by[c['kind']] = by.get(c['kind'], 0) + 1
        bit += r.get('bit_identical', 0)
    return {'evaluations_by_transform': by, 'slice_comparisons_bit_identical': bit,
            'certified_cells': sum(1 for r in results if r['monitor'] == 'M-DISP.linear' and r['status'] == HELD)}
