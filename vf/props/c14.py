"""C14 - separate row and column filters act on the axis they are named for.

Monitor M-REF on DWTForward / DWTInverse constructed with a 4-tuple
(col_lo, col_hi, row_lo, row_hi): the result must equal pywt.wavedec2 / waverec2 called with
(wavelet for axis -2, wavelet for axis -1) and the library's own functional afb2d / sfb2d given
the same four filters.  The two wavelets have different lengths and the image is not square, so
an axis mix-up changes the output *shape*, not only the values.  2-tuple and name forms must use
the same filters on both axes.
"""
import numpy as np
import pywt
from .. import core, refs, util
from ..core import res, HELD, VIOLATED, INCONCLUSIVE

PROP = 'C14'
RULE = ('cells = (column wavelet, row wavelet, mode, J, HxW) with ordered pairs of distinct wavelets '
        'of different filter length, 5 modes, J 1..3, non-square shapes; per cell impulse batch and '
        'dense inputs for the forward, one-hot / dense pyramids for the inverse, plus the 2-tuple and '
        'name forms; distinct by (cell, direction, form, input kind); non-trivial when input not zero'
        '; every module also built from the same four filters held as lists, (L,1) column arrays, a list instead of a tuple and (equal-length pairs, one cell in seven) one stacked (4,L) array: prepared buffers equal to the tuple form (M-FORM); caller arrays edited after construction (M-ALIAS)')
ASSUMPTIONS = ['pywt.wavedec2/waverec2 with a per-axis wavelet tuple is the specification', 'float64']
TIMEOUT = {'quick': 900, 'thorough': 3000}
WORKER_BUDGET = {'quick': 600, 'thorough': 2400}
MIN_HELD = {'quick': 300, 'thorough': 265489}
SHAPES = [(8, 12), (9, 16), (16, 10), (13, 7), (6, 11), (12, 5), (7, 8)]


def cells(tier, seed):
    rnd = core.rng_for(seed, PROP, tier)
    waves = [w for w in refs.all_wavelets() if refs.flen(w) <= 24]
    out = []
    n = 220 if tier == 'quick' else 60000
    while len(out) < n:
        wc, wr = rnd.choice(waves), rnd.choice(waves)
        if len(out) % 7 == 3:
            # mostly different lengths (a swap then shows in the shapes); one cell in seven has two different
            # wavelets of EQUAL length (same shapes either way, and the four filters fit one stacked array)
            same = [w for w in waves if refs.flen(w) == refs.flen(wc) and pywt.Wavelet(w).dec_lo != pywt.Wavelet(wc).dec_lo]
            if not same:
                continue
            wr = rnd.choice(same)
        elif refs.flen(wc) == refs.flen(wr):
            continue
        out.append({'wc': wc, 'wr': wr, 'mode': rnd.choice(refs.MODES), 'J': rnd.choice([1, 1, 2, 3]),
                    'shape': list(rnd.choice(SHAPES)), 'N': rnd.choice([1, 2, 4]), 'C': rnd.choice([1, 2, 3, 4])})
    return out


def arrs(w, synthesis=False):
    w = pywt.Wavelet(w)
    return (np.array(w.rec_lo), np.array(w.rec_hi)) if synthesis else (np.array(w.dec_lo), np.array(w.dec_hi))


def cmp_pyr(out, ref, tol):
    yl, yh = out
    ryl, ryh = ref
    if len(yh) != len(ryh):
        return False, 'returned %d levels, reference %d' % (len(yh), len(ryh)), float('inf')
    return util.compare_many([('yl', yl, ryl)] + [('yh[%d]' % j, h, r) for j, (h, r) in enumerate(zip(yh, ryh))], tol)


def in_short_reflect(cell):
    if cell['mode'] != 'reflect':
        return False
    for n, w in zip(cell['shape'], (cell['wc'], cell['wr'])):
        L = refs.flen(w)
        for _ in range(cell['J']):
            if n < L:
                return True
            n = pywt.dwt_coeff_len(n, L, 'reflect')
    return False


def run_cell(cell, seed):
    import torch
    import pytorch_wavelets as pw
    from pytorch_wavelets.dwt import lowlevel
    out = []
    wc, wr, mode, J = cell['wc'], cell['wr'], cell['mode'], cell['J']
    sp = cell['shape']
    G = (refs.l1gain(wc) * refs.l1gain(wr)) ** J
    Gs = (refs.l1gain(wc, True) * refs.l1gain(wr, True)) ** J
    with util.default_dtype(torch.float64):
        fwd = pw.DWTForward(J=J, wave=arrs(wc) + arrs(wr), mode=mode)
        inv = pw.DWTInverse(wave=arrs(wc, True) + arrs(wr, True), mode=mode)
        fwd2 = pw.DWTForward(J=J, wave=arrs(wc), mode=mode)
        fwdn = pw.DWTForward(J=J, wave=wc, mode=mode)
        fwdo = pw.DWTForward(J=J, wave=pywt.Wavelet(wc), mode=mode)
        inv2 = pw.DWTInverse(wave=arrs(wc, True), mode=mode)
    rnd = core.rng_for(seed, PROP, 'k', str(cell))
    may_raise = in_short_reflect(cell)
    # the caller's filter arrays stay the caller's: editing them after construction must not reach the module
    for direction, ctor, synth in (('forward', lambda a: pw.DWTForward(J=J, wave=a, mode=mode), False),
                                   ('inverse', lambda a: pw.DWTInverse(wave=a, mode=mode), True)):
        case = {'cell': cell, 'dir': direction, 'form': '4-tuple', 'input': 'caller arrays edited after construction'}
        taps = tuple(np.array(a, dtype=np.float64) for a in (arrs(wc, synth) + arrs(wr, synth)))
        with util.default_dtype(torch.float64):
            okm, m_ = util.call_lib(ctor, taps)
        if not okm:
            continue
        before = {k: v.detach().clone() for k, v in m_.state_dict().items()}
        for a in taps:
            a *= -3.0
        changed = [k for k, v in m_.state_dict().items() if not torch.equal(v, before[k])]
        out.append(res(HELD, case, 'M-ALIAS', ratio=0.0) if not changed else
                   res(VIOLATED, case, 'M-ALIAS', 'module buffers %s changed when the caller edited its own filter arrays' % changed))
    # the same four filters in the other containers a caller may hold them in (lists, (L,1) column arrays as
    # in the library's own DTCWT tables, one stacked (4,L) array when the lengths agree, a list instead of a
    # tuple): the module must be the one built from the tuple of 1-D arrays, which is compared with pywt below
    xf = util.make_input('randn', [cell['N'], cell['C']] + sp, seed + 31)
    for direction, ctor, synth, refm in (('forward', lambda a: pw.DWTForward(J=J, wave=a, mode=mode), False, fwd),
                                         ('inverse', lambda a: pw.DWTInverse(wave=a, mode=mode), True, inv)):
        base4 = arrs(wc, synth) + arrs(wr, synth)
        forms = [('tuple of lists', tuple(list(a) for a in base4)),
                 ('tuple of (L,1) column arrays', tuple(a.reshape(-1, 1).copy() for a in base4)),
                 ('list of arrays', [a.copy() for a in base4])]
        if len(set(len(a) for a in base4)) == 1:
            forms.append(('stacked (4,L) array', np.stack(base4)))
        want = {k: v for k, v in refm.state_dict().items()}
        for fname, arg in forms:
            case = {'cell': cell, 'dir': direction, 'form': fname, 'input': 'filters'}
            with util.default_dtype(torch.float64):
                okm, m_ = util.call_lib(ctor, arg)
            if not okm:
                out.append(res(core.SKIPPED, case, 'M-FORM', 'this container is refused: %r' % (m_,)))
                continue
            got = m_.state_dict()
            bad = [k for k in want if k not in got or got[k].shape != want[k].shape or not torch.equal(got[k], want[k])]
            out.append(res(HELD, case, 'M-FORM', ratio=0.0) if not bad else
                       res(VIOLATED, case, 'M-FORM', 'filter buffers %s differ from those built from the tuple of 1-D arrays' % bad))
    pyr = None
    for kind in ['impulse', 'randn', rnd.choice(['dynrange', 'alt', 'outlier', 'ramp'])]:
        x = util.impulses(sp) if kind == 'impulse' else util.make_input(kind, [cell['N'], cell['C']] + sp, seed)
        xn = util.np64(x)
        tol = 1e-11 * G * max(float(np.abs(xn).max()), 1e-300)
        # (a) 4-tuple forward vs pywt per-axis
        case = {'cell': cell, 'dir': 'forward', 'form': '4-tuple', 'input': kind}
        ok, y = util.call_lib(fwd, x)
        if not ok:
            if may_raise:
                out.append(res(core.SKIPPED, case, 'M-REF', 'reflect on a signal shorter than the filter raises'))
            else:
                out.append(res(VIOLATED, case, 'M-REF', 'library raised %r' % (y,)))
            continue
        ref = refs.wavedec2(xn, wc, wr, mode, J)
        okc, d, ratio = cmp_pyr(y, ref, tol)
        out.append(res(HELD, case, 'M-REF', ratio=ratio) if okc else res(VIOLATED, case, 'M-REF', d, ratio=ratio))
        if kind == 'randn':
            pyr = y
        # (c) vs the functional one-level bank with the same four filters (first level)
        case = {'cell': cell, 'dir': 'forward', 'form': 'functional', 'input': kind}
        with util.default_dtype(torch.float64):
            okf, yf = util.call_lib(lowlevel.afb2d, x, arrs(wc) + arrs(wr), mode)
        if okf:
            yf = yf.reshape(yf.shape[0], -1, 4, yf.shape[-2], yf.shape[-1])
            with util.default_dtype(torch.float64):
                ok1, y1 = util.call_lib(lambda: pw.DWTForward(J=1, wave=arrs(wc) + arrs(wr), mode=mode)(x))
            if ok1:
                okc, d, ratio = util.compare_many([('ll', y1[0], util.np64(yf[:, :, 0])),
                                                   ('highs', y1[1][0], util.np64(yf[:, :, 1:]))], tol)
                out.append(res(HELD, case, 'M-FUNC', ratio=ratio) if okc else
                           res(VIOLATED, case, 'M-FUNC', d, ratio=ratio))
            else:
                out.append(res(VIOLATED, case, 'M-FUNC', 'module raised %r where afb2d returned' % (y1,)))
        else:
            out.append(res(VIOLATED, case, 'M-FUNC', 'afb2d raised %r where the module returned' % (yf,)))
        # (d) 2-tuple and name forms: same wavelet on both axes
        if kind != 'impulse':
            ref2 = refs.wavedec2(xn, wc, wc, mode, J)
            tol2 = 1e-11 * refs.l1gain(wc) ** (2 * J) * max(float(np.abs(xn).max()), 1e-300)
            for form, m in (('2-tuple', fwd2), ('name', fwdn), ('pywt.Wavelet object', fwdo)):
                case = {'cell': cell, 'dir': 'forward', 'form': form, 'input': kind}
                ok2, y2 = util.call_lib(m, x)
                if ok2:
                    okc, d, ratio = cmp_pyr(y2, ref2, tol2)
                    out.append(res(HELD, case, 'M-REF', ratio=ratio) if okc else
                               res(VIOLATED, case, 'M-REF', d, ratio=ratio))
                elif not (mode == 'reflect'):
                    out.append(res(VIOLATED, case, 'M-REF', 'library raised %r' % (y2,)))
    # inverse
    if pyr is not None:
        shapes = [list(pyr[0].shape)] + [list(h.shape) for h in pyr[1]]
        for kind in ['roundtrip', 'randn', 'impulse', 'none-level']:
            case = {'cell': cell, 'dir': 'inverse', 'form': '4-tuple', 'input': kind}
            if kind == 'roundtrip':
                yl, yh = pyr
            elif kind == 'none-level':
                # a highpass level given as None (documented) with different row and column filters
                yl = util.make_input('randn', shapes[0], seed + 21)
                yh = [util.make_input('randn', s_, seed + 22 + j) for j, s_ in enumerate(shapes[1:])]
                nm = rnd.randrange(J)
                yh_n = [None if j == nm else h for j, h in enumerate(yh)]
                case['none_level'] = nm
                try:
                    refn = refs.waverec2(util.np64(yl), [None if h is None else util.np64(h) for h in yh_n], wc, wr, mode)
                except Exception:
                    refn = None
                okn, rn = util.call_lib(inv, (yl, yh_n))
                if refn is None:
                    out.append(res(core.SKIPPED, case, 'M-REF', 'pywt rejects this pyramid with a None level') if not okn else
                               res(INCONCLUSIVE, case, 'M-REF', 'pywt rejects the pyramid, the library returned'))
                elif not okn:
                    out.append(res(VIOLATED, case, 'M-REF', 'inverse raised %r where pywt returns' % (rn,)))
                else:
                    okc, d, ratio = util.compare('inverse with a None level', rn, refn,
                                                 1e-11 * Gs * max(float(yl.abs().max()), 1.0) * 8)
                    out.append(res(HELD, case, 'M-REF', ratio=ratio) if okc else res(VIOLATED, case, 'M-REF', d, ratio=ratio))
                continue
            elif kind == 'randn':
                yl = util.make_input('randn', shapes[0], seed + 1)
                yh = [util.make_input('randn', s, seed + 2 + j) for j, s in enumerate(shapes[1:])]
            else:
                sizes = [int(np.prod(s[2:])) for s in shapes]
                n = sum(sizes)
                k = min(n, 200)
                pos = torch.randperm(n, generator=util.gen(seed, 'p', str(cell)))[:k]
                eye = torch.zeros(k, n, dtype=torch.float64)
                eye[torch.arange(k), pos] = 1.0
                parts = torch.split(eye, sizes, dim=1)
                yl = parts[0].reshape(k, 1, *shapes[0][2:])
                yh = [p.reshape(k, 1, *s[2:]) for p, s in zip(parts[1:], shapes[1:])]
            m = max([float(yl.abs().max())] + [float(h.abs().max()) for h in yh])
            tol = 1e-11 * Gs * max(m, 1e-300) * 4
            ok, r = util.call_lib(inv, (yl, yh))
            if not ok:
                out.append(res(VIOLATED, case, 'M-REF', 'inverse raised %r' % (r,)))
                continue
            ref = refs.waverec2(util.np64(yl), [util.np64(h) for h in yh], wc, wr, mode)
            okc, d, ratio = util.compare('inverse', r, ref, tol)
            out.append(res(HELD, case, 'M-REF', ratio=ratio) if okc else res(VIOLATED, case, 'M-REF', d, ratio=ratio))
            if J == 1 and kind != 'impulse':
                case = {'cell': cell, 'dir': 'inverse', 'form': 'functional', 'input': kind}
                h = yh[0]
                with util.default_dtype(torch.float64):
                    okf, rf = util.call_lib(lowlevel.sfb2d, yl, h[:, :, 0].contiguous(), h[:, :, 1].contiguous(),
                                            h[:, :, 2].contiguous(), arrs(wc, True) + arrs(wr, True), mode)
                if okf:
                    okc, d, ratio = util.compare('inverse vs sfb2d', r, util.np64(rf), tol)
                    out.append(res(HELD, case, 'M-FUNC', ratio=ratio) if okc else
                               res(VIOLATED, case, 'M-FUNC', d, ratio=ratio))
                else:
                    out.append(res(VIOLATED, case, 'M-FUNC', 'sfb2d raised %r' % (rf,)))
        # 2-tuple inverse on a same-wavelet pyramid
        case = {'cell': cell, 'dir': 'inverse', 'form': '2-tuple', 'input': 'randn'}
        x = util.make_input('randn', [cell['N'], cell['C']] + sp, seed + 9)
        ok, p2 = util.call_lib(fwd2, x)
        if ok:
            ok, r2 = util.call_lib(inv2, p2)
            if ok:
                ref = refs.waverec2(util.np64(p2[0]), [util.np64(h) for h in p2[1]], wc, wc, mode)
                okc, d, ratio = util.compare('inverse', r2, ref, 1e-10 * Gs * G * float(x.abs().max()))
                out.append(res(HELD, case, 'M-REF', ratio=ratio) if okc else res(VIOLATED, case, 'M-REF', d, ratio=ratio))
            else:
                out.append(res(VIOLATED, case, 'M-REF', 'inverse raised %r' % (r2,)))
    return out


def nontrivial(r):
    return r['monitor'] in ('M-REF', 'M-FUNC')


def extra_cov(results, meta):
    pairs = set()
    for r in results:
        c = r['case'].get('cell')
        if c:
            pairs.add((c['wc'], c['wr']))
    return {'ordered_wavelet_pairs': len(pairs)}
