"""C09 - scattering layers back-propagate the true gradient, finite everywhere.

Monitor M-JAC on ScatLayer / ScatLayerj2 (x.grad after Z.backward(g)) with two independent references:
  (i)  M-JAC.native: the layer's own forward body (plain torch code inside the autograd.Function) is
       re-run with autograd enabled on a stand-in ctx and differentiated by torch's native autograd -
       no hand-written backward involved; its value is tied to the layer output in the same run;
  (ii) M-JAC.fd: central finite differences in float64 along random directions - independent of
       autograd altogether (coarser tolerance, used when the bias is not tiny).
Monitor M-FINITE: with magbias > 0 every gradient entry is finite (all-zero image included).
Monitor M-MAG: SmoothMagFn alone against the analytic gradient (x/r, y/r) for every requires-grad
subset of (x, y).
"""
import itertools
import numpy as np
from .. import core, refs, util, scatref
from ..core import res, HELD, VIOLATED, INCONCLUSIVE
from . import c08

PROP = 'C09'
RULE = ('cells = (order 1|2, biort family incl. band-pass, q-shift, magbias in {1e-6, 1e-2, 1}, colour on/off, '
        'HxW in 4..24 incl. odd / non-multiple-of-8, input class incl. exact zeros and single impulse, cotangent '
        'class in {randn, ones, one-hot band}); plus SmoothMagFn cells over all requires-grad subsets; distinct '
        'by (cell, check)'
        '; second pull-back through one graph, output edited in place before backward, input edited in place between forward and backward (autograd refusing is out of scope)')
ASSUMPTIONS = ['float64', 'torch native autograd trusted for plain torch code', 'finite differences: h = 1e-4*min(scale, bias)']
TIMEOUT = {'quick': 900, 'thorough': 3300}
WORKER_BUDGET = {'quick': 600, 'thorough': 2700}
MIN_HELD = {'quick': 200, 'thorough': 67753}
SIDES = [4, 5, 7, 8, 9, 10, 12, 13, 16, 20, 24]


def cells(tier, seed):
    rnd = core.rng_for(seed, PROP, tier)
    out = []
    n = 200 if tier == 'quick' else 60000
    for i in range(n):
        order = 1 if i % 2 == 0 else 2
        b = rnd.choice(c08.BIORTS)
        q = 'qshift_b_bp' if b == 'near_sym_b_bp' else rnd.choice(['qshift_a', 'qshift_b', 'qshift_c', 'qshift_d', 'qshift_06'])
        colour = rnd.random() < 0.35
        out.append({'order': order, 'biort': b, 'qshift': q, 'magbias': rnd.choice([1e-6, 1e-2, 1e-2, 1.0]),
                    'colour': colour, 'shape': [rnd.choice(SIDES), rnd.choice(SIDES)], 'N': rnd.choice([1, 2]),
                    'C': 3 if colour else rnd.choice([1, 2]),
                    'kind': rnd.choice(['randn', 'zeros', 'impulse', 'sparse', 'const', 'big', 'small', 'randn']),
                    'cot': rnd.choice(['randn', 'ones', 'onehot']),
                    # first-order layers also exist in 'zero' padding mode (the q-shift stages of the
                    # second-order layer implement symmetric extension only)
                    'mode': rnd.choice(['symmetric', 'symmetric', 'zero']) if order == 1 else 'symmetric'})
    for i in range(20 if tier == 'quick' else 200):
        out.append({'order': 0, 'magbias': rnd.choice([1e-6, 1e-2, 1.0, 0.0]), 'shape': [rnd.choice([1, 3, 7]), rnd.choice([1, 4, 9])],
                    'kind': rnd.choice(['randn', 'zeros', 'big', 'small']), 'i': i})
    rnd.shuffle(out)
    return out


class _Ctx:
    needs_input_grad = (True,) * 16

    def save_for_backward(self, *a):
        self.saved_tensors = a


def native_forward(mod, x):
    """the layer's forward with the autograd.Function replaced by its own forward body run as plain
    differentiable torch code"""
    import torch
    from pytorch_wavelets.scatternet import lowlevel as sl
    from pytorch_wavelets.scatternet.layers import ScatLayer

    class Shim:
        def __init__(self, fn):
            self.fn = fn

        def apply(self, *a):
            return self.fn.forward(_Ctx(), *a)
    names = ['ScatLayerj1_f', 'ScatLayerj1_rot_f', 'ScatLayerj2_f', 'ScatLayerj2_rot_f']
    import pytorch_wavelets.scatternet.layers as layers
    saved = {n: getattr(layers, n) for n in names}
    try:
        for n in names:
            setattr(layers, n, Shim(saved[n]))
        with torch.enable_grad():
            return type(mod).forward(mod, x)
    finally:
        for n in names:
            setattr(layers, n, saved[n])


def make_cot(cell, z, seed):
    import torch
    k = cell['cot']
    if k == 'ones':
        return torch.ones_like(z)
    if k == 'onehot':
        g = torch.zeros_like(z)
        gen = util.gen(seed, 'cot', str(cell))
        ch = int(torch.randint(0, z.shape[1], (1,), generator=gen))
        g[:, ch] = torch.randn(g[:, ch].shape, generator=gen, dtype=z.dtype)
        return g
    return torch.randn(z.shape, generator=util.gen(seed, 'cot', str(cell)), dtype=z.dtype)


def smoothmag_cell(cell, seed):
    import torch
    from pytorch_wavelets.scatternet.lowlevel import SmoothMagFn
    out = []
    b = cell['magbias']
    shp = cell['shape']
    g = util.gen(seed, 'sm', str(cell))
    sc = {'big': 1e4, 'small': 1e-6}.get(cell['kind'], 1.0)
    for rx, ry in itertools.product([False, True], repeat=2):
        case = {'cell': cell, 'check': 'SmoothMagFn', 'requires_grad': [rx, ry]}
        if cell['kind'] == 'zeros':
            x0, y0 = torch.zeros(shp, dtype=torch.float64), torch.zeros(shp, dtype=torch.float64)
        else:
            x0 = torch.randn(shp, generator=g, dtype=torch.float64) * sc
            y0 = torch.randn(shp, generator=g, dtype=torch.float64) * sc
        x, y = x0.clone().requires_grad_(rx), y0.clone().requires_grad_(ry)
        ok, r = util.call_lib(SmoothMagFn.apply, x, y, b)
        if not ok:
            out.append(res(VIOLATED, case, 'M-MAG', 'forward raised %r' % (r,)))
            continue
        rr = torch.sqrt(x0 ** 2 + y0 ** 2 + b ** 2)
        okc, d, ratio = util.compare('value', r, util.np64(rr - b), 8 * util.EPS64 * float(rr.abs().max()) + 1e-300)
        if not okc:
            out.append(res(VIOLATED, case, 'M-MAG', d))
            continue
        if not (rx or ry):
            out.append(res(HELD, case, 'M-MAG', 'no grad requested; value correct', ratio=ratio))
            continue
        cot = torch.randn(r.shape, generator=g, dtype=torch.float64)
        ok, e = util.call_lib(lambda: r.backward(cot))
        if not ok:
            out.append(res(VIOLATED, case, 'M-MAG', 'backward raised %r' % (e,)))
            continue
        if b == 0 and cell['kind'] == 'zeros':
            out.append(res(core.SKIPPED, case, 'M-MAG', 'plain modulus at the origin is not differentiable (bias 0)'))
            continue
        fail, worst = None, 0.0
        for nm, t, t0, need in (('x', x, x0, rx), ('y', y, y0, ry)):
            if not need:
                continue
            if t.grad is None:
                fail = fail or 'no gradient delivered to %s' % nm
                continue
            want = cot * t0 / rr
            tol = 16 * util.EPS64 * float(cot.abs().max()) + 1e-300
            okc, d, ratio = util.compare('grad ' + nm, t.grad, util.np64(want), tol)
            worst = max(worst, ratio)
            if not okc and fail is None:
                fail = d
        out.append(res(HELD, case, 'M-MAG', ratio=worst) if fail is None else res(VIOLATED, case, 'M-MAG', fail, ratio=worst))
    return out


def run_cell(cell, seed):
    import torch
    if cell['order'] == 0:
        return smoothmag_cell(cell, seed)
    out = []
    ok, mod = util.call_lib(c08.build, cell)
    if not ok:
        return [res(VIOLATED, {'cell': cell}, 'M-JAC.native', 'constructor raised %r' % (mod,))]
    x0 = c08.make_x(cell, seed)
    x = x0.clone().requires_grad_(True)
    ok, z = util.call_lib(mod, x)
    if not ok:
        return [res(VIOLATED, {'cell': cell}, 'M-JAC.native', 'forward raised %r' % (z,))]
    cot = make_cot(cell, z, seed)
    ok, g = util.call_lib(torch.autograd.grad, [z], [x], [cot], allow_unused=True, retain_graph=True)
    g_second = util.call_lib(torch.autograd.grad, [z], [x], [1e-9 * torch.flip(cot, dims=[0])], allow_unused=True) if ok else None
    case = {'cell': cell, 'check': 'finite'}
    if not ok:
        return [res(VIOLATED, {'cell': cell, 'check': 'backward'}, 'M-JAC.native', 'backward raised %r' % (g,))]
    if g[0] is None:
        return [res(VIOLATED, {'cell': cell, 'check': 'backward'}, 'M-JAC.native', 'no gradient delivered to the input')]
    grad = g[0]
    if tuple(grad.shape) != tuple(x.shape):
        return [res(VIOLATED, {'cell': cell, 'check': 'backward'}, 'M-JAC.native', 'gradient shape %s, input shape %s' % (
            tuple(grad.shape), tuple(x.shape)))]
    fin = bool(torch.isfinite(grad).all())
    out.append(res(HELD, case, 'M-FINITE', ratio=0.0) if fin else
               res(VIOLATED, case, 'M-FINITE', 'non-finite gradient entries with magbias=%g' % cell['magbias']))
    if not fin:
        return out
    # (i) native autograd of the forward body
    case = {'cell': cell, 'check': 'native'}
    xn = x0.clone().requires_grad_(True)
    ok, zn = util.call_lib(native_forward, mod, xn)
    if not ok:
        out.append(res(INCONCLUSIVE, case, 'M-JAC.native', 'native re-run raised %r' % (zn,)))
    else:
        G = scatref.stage_gain(cell['biort'], cell['qshift'], cell['order'])
        b = cell['magbias']
        okv, d, _ = util.compare('native forward vs layer', zn, util.np64(z), 1e-12 * (G * float(x0.abs().max()) + b) + 1e-300)
        if not okv:
            out.append(res(INCONCLUSIVE, case, 'M-JAC.native', 'native re-run does not reproduce the layer output: ' + d))
        else:
            gn = torch.autograd.grad([zn], [xn], [cot])[0]
            # gradient magnitude bound: |dZ/dx| <= G (magnitude map is 1-Lipschitz); conditioning 1/b near zero
            scale = float(cot.abs().max()) * G
            cond = max(1.0, float(x0.abs().max()) * G / b)
            tol = 1e-11 * scale * min(cond, 1e6) + 1e-300
            okc, d, ratio = util.compare('x.grad vs native autograd', grad, util.np64(gn), tol)
            out.append(res(HELD, case, 'M-JAC.native', ratio=ratio) if okc else
                       res(VIOLATED, case, 'M-JAC.native', d, ratio=ratio))
            # second cotangent (magnitude 1e-9) pulled back through the same recorded graph
            case2 = {'cell': cell, 'check': 'second pull-back, tiny cotangent'}
            if not g_second[0]:
                out.append(res(VIOLATED, case2, 'M-JAC.native', 'second backward through the same graph raised %r' % (g_second[1],)))
            elif g_second[1][0] is None:
                out.append(res(VIOLATED, case2, 'M-JAC.native', 'no gradient delivered on the second backward'))
            else:
                xn2 = x0.clone().requires_grad_(True)
                zn2 = native_forward(mod, xn2)
                c2 = 1e-9 * torch.flip(cot, dims=[0])
                gn2 = torch.autograd.grad([zn2], [xn2], [c2])[0]
                okc, d, ratio = util.compare('x.grad vs native autograd (|g| ~ 1e-9)', g_second[1][0], util.np64(gn2), tol * 1e-9)
                out.append(res(HELD, case2, 'M-JAC.native', ratio=ratio) if okc else
                           res(VIOLATED, case2, 'M-JAC.native', d, ratio=ratio))
    # the caller post-processes the layer output IN PLACE before back-propagating (legal: autograd would
    # complain if the layer had saved its output): the chain rule must still hold
    case3 = {'cell': cell, 'check': 'output modified in place before backward'}
    x3 = x0.clone().requires_grad_(True)
    ok3, z3 = util.call_lib(mod, x3)
    if ok3:
        ok3, e3 = util.call_lib(lambda: z3.mul_(0.5).add_(1.0))
        if not ok3:
            out.append(res(core.SKIPPED, case3, 'M-JAC.native', 'torch refuses the in-place edit of the output'))
    if ok3:
        ok3, g3 = util.call_lib(torch.autograd.grad, [z3], [x3], [cot], allow_unused=True)
        if not ok3:
            out.append(res(VIOLATED, case3, 'M-JAC.native', 'backward after an in-place edit of the output raised %r' % (g3,)))
        elif g3[0] is None:
            out.append(res(VIOLATED, case3, 'M-JAC.native', 'no gradient delivered'))
        else:
            G = scatref.stage_gain(cell['biort'], cell['qshift'], cell['order'])
            cond = max(1.0, float(x0.abs().max()) * G / cell['magbias'])
            tol3 = 1e-11 * float(cot.abs().max()) * G * min(cond, 1e6) + 1e-300
            okc, d, ratio = util.compare('x.grad vs 0.5 * first gradient', g3[0], 0.5 * util.np64(grad), tol3)
            out.append(res(HELD, case3, 'M-JAC.native', ratio=ratio) if okc else
                       res(VIOLATED, case3, 'M-JAC.native', d, ratio=ratio))
    # the caller overwrites the tensor it fed to the layer IN PLACE before back-propagating (a reused buffer,
    # a clamp step).  Either autograd refuses the backward (the layer saved that tensor through
    # save_for_backward and the version check fires: a clear error, out of scope) or the gradient is the one at
    # the values the forward pass saw - never a gradient silently taken at the new values.
    case4 = {'cell': cell, 'check': 'input modified in place before backward'}
    x4 = x0.clone().requires_grad_(True)
    xin = x4 * 1.0                                  # non-leaf, so that it may be edited in place
    ok4, z4 = util.call_lib(mod, xin)
    if ok4:
        ok_e, e4 = util.call_lib(lambda: xin.mul_(-3.0).add_(0.7))
        if not ok_e:
            out.append(res(core.SKIPPED, case4, 'M-JAC.native', 'torch refuses the in-place edit of the input'))
        else:
            ok4, g4 = util.call_lib(torch.autograd.grad, [z4], [x4], [cot], allow_unused=True)
            if not ok4:
                msg = str(g4)
                if 'modified by an inplace operation' in msg:
                    out.append(res(core.SKIPPED, case4, 'M-JAC.native', 'autograd refuses: a saved tensor was modified in place'))
                else:
                    out.append(res(VIOLATED, case4, 'M-JAC.native', 'backward after an in-place edit of the input raised %r' % (g4,)))
            elif g4[0] is None:
                out.append(res(VIOLATED, case4, 'M-JAC.native', 'no gradient delivered'))
            else:
                G = scatref.stage_gain(cell['biort'], cell['qshift'], cell['order'])
                cond = max(1.0, float(x0.abs().max()) * G / cell['magbias'])
                tol4 = 1e-11 * float(cot.abs().max()) * G * min(cond, 1e6) + 1e-300
                okc, d, ratio = util.compare('x.grad vs the gradient at the forward values', g4[0], util.np64(grad), tol4)
                out.append(res(HELD, case4, 'M-JAC.native', ratio=ratio) if okc else
                           res(VIOLATED, case4, 'M-JAC.native', d, ratio=ratio))
    # the same cotangent values behind another memory layout (what the next layer's backward may hand over):
    # channels_last, and storage transposed in the last two axes
    x5 = x0.clone().requires_grad_(True)
    ok5, z5 = util.call_lib(mod, x5)
    if ok5:
        G = scatref.stage_gain(cell['biort'], cell['qshift'], cell['order'])
        cond = max(1.0, float(x0.abs().max()) * G / cell['magbias'])
        tol5 = 1e-11 * float(cot.abs().max()) * G * min(cond, 1e6) + 1e-300
        for nm, cc in (('channels_last', cot.contiguous(memory_format=torch.channels_last)),
                       ('transposed storage', cot.transpose(-1, -2).contiguous().transpose(-1, -2))):
            case5 = {'cell': cell, 'check': 'cotangent in another memory layout', 'layout': nm}
            ok5, g5 = util.call_lib(torch.autograd.grad, [z5], [x5], [cc], allow_unused=True, retain_graph=True)
            if not ok5:
                out.append(res(VIOLATED, case5, 'M-JAC.native', 'backward raised %r' % (g5,)))
            elif g5[0] is None:
                out.append(res(VIOLATED, case5, 'M-JAC.native', 'no gradient delivered'))
            else:
                okc, d, ratio = util.compare('x.grad vs the gradient for the contiguous cotangent', g5[0], util.np64(grad), tol5)
                out.append(res(HELD, case5, 'M-JAC.native', ratio=ratio) if okc else
                           res(VIOLATED, case5, 'M-JAC.native', d, ratio=ratio))
    # (ii) finite differences
    if cell['magbias'] >= 1e-2:
        case = {'cell': cell, 'check': 'fd'}
        b = cell['magbias']
        scale = max(float(x0.abs().max()), 1e-300)
        h = 1e-4 * min(max(scale, b), b) if cell['kind'] != 'zeros' else 1e-4 * b
        gen = util.gen(seed, 'fd', str(cell))
        worst, fail = 0.0, None
        G = scatref.stage_gain(cell['biort'], cell['qshift'], cell['order'])
        with torch.no_grad():
            for _ in range(4):
                v = torch.randn(x0.shape, generator=gen, dtype=torch.float64)
                zp, zm = mod(x0 + h * v), mod(x0 - h * v)
                fd = float(((zp - zm) * cot).sum()) / (2 * h)
                an = float((grad * v).sum())
                nz = float(cot.abs().sum()) * G * float(v.abs().max())
                tol = 1e-5 * nz + 1e-300
                worst = max(worst, abs(fd - an) / tol)
                if abs(fd - an) > tol and fail is None:
                    fail = 'directional derivative: finite difference %.8g, back-propagation %.8g (tol %.3g)' % (fd, an, tol)
        out.append(res(HELD, case, 'M-JAC.fd', ratio=worst) if fail is None else
                   res(VIOLATED, case, 'M-JAC.fd', fail, ratio=worst))
    return out


def extra_cov(results, meta):
    strata = {}
    for r in results:
        c = r['case'].get('cell')
        if c and c.get('order'):
            k = 'order%d/%s/%s/bias%g' % (c['order'], c['biort'], 'colour' if c['colour'] else 'grey', c['magbias'])
            strata[k] = strata.get(k, 0) + 1
    return {'strata_count': len(strata),
            'zero_image_cells': sum(1 for r in results if r['monitor'] == 'M-FINITE' and r['case']['cell']['kind'] == 'zeros'),
            'smoothmag_subset_cases': sum(1 for r in results if r['monitor'] == 'M-MAG')}
