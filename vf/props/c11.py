"""C11 - DTCWT synthesis equals the reference inverse on arbitrary pyramids; absent == zeros.

Monitor M-REF on DTCWTInverse.forward: dtcwt.Transform2d.inverse on the same (not-in-range)
coefficient arrays, pyramids shaped by the *reference* forward; one-hot coefficient batches give
the synthesis operator; M-DISP.linear certificate with the whole pyramid tainted.
Monitor M-ABSENT (metamorphic against the library itself, the NumPy package has no None support):
a pyramid with a subset of {lowpass, level 1..J} absent - encoded as None, as the library's 0-dim
placeholder, or as torch.tensor([]) as the docstring says - must give the same shape and values as
the pyramid with explicit zeros.
"""
import itertools
import numpy as np
from .. import core, refs, util
from ..core import res, HELD, VIOLATED, INCONCLUSIVE
from . import c03

PROP = 'C11'
RULE = ('cells = (20 filter pairs, J in 1..4, HxW from 2..37 incl. odd/non-multiple-of-4/non-square); '
        'pyramid shapes taken from the reference forward; per cell dense random pyramids + a one-hot '
        'coefficient batch vs the NumPy inverse, and absent subsets of {lowpass, levels} in three encodings '
        'vs explicit zeros; distinct by (cell, input kind, absent mask, encoding); non-trivial when the '
        'pyramid is not all-zero'
        '; a level that is non-zero but sums to exactly zero (checkerboard) judged against the affine mean of the reference on two dense pyramids; pyramids in units of 1e-10')
ASSUMPTIONS = ['dtcwt 0.14 Transform2d.inverse is the specification for full pyramids',
               'absent entries are specified by the statement itself: same result as explicit zeros', 'float64']
TIMEOUT = {'quick': 900, 'thorough': 3300}
WORKER_BUDGET = {'quick': 600, 'thorough': 2700}
MIN_HELD = {'quick': 300, 'thorough': 59033}
KF_LOW, KF_ENC, KF_CROP = 'absent-lowpass', 'absent-encoding-1d-empty', 'absent-highpass-needs-crop'
ENCODINGS = ['None', '0-dim', '1d-empty']


def cells(tier, seed):
    out = c03.cells(tier, seed, 'c11')
    for c in out:
        c['J'] = min(c['J'], 4)
    return out


def ref_shapes(cell):
    z = np.zeros([1, 1] + cell['shape'])
    yl, yh, _ = refs.dtcwt_fwd(z, cell['biort'], cell['qshift'], cell['J'])
    return list(yl.shape[2:]), [list(h.shape[3:]) for h in yh]


def make_pyramid(cell, kind, seed, lo, det):
    import torch
    if kind == 'impulse':
        sizes = [int(np.prod(lo))] + [12 * int(np.prod(d)) for d in det]
        n = sum(sizes)
        k = min(n, 40)
        pos = torch.randperm(n, generator=util.gen(seed, 'pos', str(cell)))[:k]
        eye = torch.zeros(k, n, dtype=torch.float64)
        eye[torch.arange(k), pos] = 1.0
        parts = torch.split(eye, sizes, dim=1)
        yl = parts[0].reshape(k, 1, *lo)
        yh = [p.reshape(k, 1, 6, d[0], d[1], 2) for p, d in zip(parts[1:], det)]
    else:
        N, C = cell['N'], cell['C']
        yl = util.make_input(kind, [N, C] + lo, seed)
        yh = [util.make_input(kind, [N, C, 6] + d + [2], seed + 7 * (j + 1)) for j, d in enumerate(det)]
    # Dense background on every component.  The NumPy reference's colifilt returns zeros whenever
    # all non-zeros of its input sit in row 0 (`if not np.any(np.nonzero(X[:])[0])`, meant as an
    # all-zero shortcut), so one-hot and some structured pyramids would be judged against a wrong
    # reference; a dense input never meets that shortcut.  Both sides see the same arrays.
    g = util.gen(seed, 'bg', str(cell))
    sc = 0.01 * max(1.0, float(yl.abs().max()))
    yl = yl + sc * torch.randn(1, 1, *yl.shape[2:], generator=g, dtype=torch.float64)
    yh = [h + sc * torch.randn(1, 1, *h.shape[2:], generator=g, dtype=torch.float64) for h in yh]
    return yl, yh


def absent(enc, like):
    import torch
    if enc == 'None':
        return None
    if enc == '0-dim':
        return like.new_zeros([])
    return torch.tensor([], dtype=like.dtype)


def kf_for(enc, mask, det, J):
    """mechanism predicate of the known findings (mask[0] = lowpass, mask[j] = level j)"""
    if mask[0] and mask[J]:                # nothing left to take the lowpass size from
        return KF_LOW
    for j in range(1, J):                  # levels below the coarsest: the lowpass coming up may need a crop
        if mask[j] and (det[j - 1][0] % 2 == 1 or det[j - 1][1] % 2 == 1):
            return KF_CROP
    return None


def run_cell(cell, seed):
    import torch
    import pytorch_wavelets as pw
    out = []
    J = cell['J']
    with util.default_dtype(torch.float64):
        inv = pw.DTCWTInverse(biort=cell['biort'], qshift=cell['qshift'])
    try:
        lo, det = ref_shapes(cell)
    except Exception as e:
        return [res(INCONCLUSIVE, {'cell': cell}, 'M-REF', 'reference forward raised %r' % (e,))]
    G = refs.dtcwt_gain(cell['biort'], cell['qshift'], J, True)
    rnd = core.rng_for(seed, PROP, 'k', str(cell))
    full = {}
    for kind in ['impulse', 'randn', rnd.choice(['dynrange', 'alt', 'outlier', 'ramp']), 'tiny']:
        case = {'cell': cell, 'input': kind}
        if kind == 'tiny':        # coefficients in units of 1e-10: nothing may be treated as negligible
            yl, yh = make_pyramid(cell, 'randn', seed + 13, lo, det)
            yl, yh = yl * 1e-10, [h * 1e-10 for h in yh]
        else:
            yl, yh = make_pyramid(cell, kind, seed, lo, det)
        m = max([float(yl.abs().max())] + [float(h.abs().max()) for h in yh])
        tol = 1e-11 * G * max(m, 1e-300)
        ok, y = util.call_lib_eval(inv, (yl, yh)) if kind == 'tiny' else util.call_lib(inv, (yl, yh))     # one class in eval() mode
        try:
            ref = refs.dtcwt_inv(util.np64(yl), [c03.to_complex(h) for h in yh], cell['biort'], cell['qshift'])
        except Exception as e:
            out.append(res(INCONCLUSIVE, case, 'M-REF', 'reference raised %r' % (e,)))
            continue
        if not ok:
            out.append(res(VIOLATED, case, 'M-REF', 'library raised %r where the reference returns' % (y,)))
            continue
        okc, d, ratio = util.compare('inverse', y, ref, tol)
        out.append(res(HELD, case, 'M-REF', ratio=ratio) if okc else res(VIOLATED, case, 'M-REF', d, ratio=ratio))
        if kind == 'randn':
            full = {'yl': yl, 'yh': yh, 'tol': tol}
    # explicit zeros at one level (dense elsewhere) against the reference: exact zeros must not change the path
    yl, yh = make_pyramid(cell, 'randn', seed + 9, lo, det)
    zj = rnd.randrange(J)
    yh = [torch.zeros_like(h) if j == zj else h for j, h in enumerate(yh)]
    case = {'cell': cell, 'input': 'randn', 'zero_level': zj}
    ok, y = util.call_lib(inv, (yl, yh))
    try:
        ref = refs.dtcwt_inv(util.np64(yl), [c03.to_complex(h) for h in yh], cell['biort'], cell['qshift'])
        if not ok:
            out.append(res(VIOLATED, case, 'M-REF', 'library raised %r on a pyramid with an all-zero level' % (y,)))
        else:
            okc, d, ratio = util.compare('inverse (one level exactly zero)', y, ref, 1e-11 * G * max(float(yl.abs().max()), 1.0) * 4)
            out.append(res(HELD, case, 'M-REF', ratio=ratio) if okc else res(VIOLATED, case, 'M-REF', d, ratio=ratio))
    except Exception as e:
        out.append(res(INCONCLUSIVE, case, 'M-REF', 'reference raised %r' % (e,)))
    # a level whose coefficients are non-zero but sum to exactly zero (checkerboard +-1), dense elsewhere
    yl, yh = make_pyramid(cell, 'randn', seed + 19, lo, det)
    zj = rnd.randrange(J)
    hj = yh[zj]
    ii = torch.arange(hj.shape[-3]).reshape(-1, 1, 1) + torch.arange(hj.shape[-2]).reshape(1, -1, 1) + torch.arange(2).reshape(1, 1, -1)
    board = (1.0 - 2.0 * (ii % 2)).to(torch.float64).expand_as(hj).clone()
    if hj.shape[-3] * hj.shape[-2] % 2 == 0:          # an even number of entries per (re, im) plane: exact zero sums
        # The NumPy reference is not trustworthy on this structured level itself (its all-zero shortcut in
        # colifilt fires on the cancelling checkerboard: measured, the reference then violates its own
        # additivity by 0.3-0.6).  The inverse is affine in one level, so the reference value is taken as
        # the mean of the reference on two dense pyramids (board + R, board - R).
        Rr = torch.randn(hj.shape, generator=util.gen(seed, 'zs', str(cell)), dtype=torch.float64)
        yh0 = yh
        yh = [board if j == zj else h for j, h in enumerate(yh0)]
        case = {'cell': cell, 'input': 'randn', 'zero_sum_level': zj}
        ok, y = util.call_lib(inv, (yl, yh))
        try:
            ref = 0.5 * sum(refs.dtcwt_inv(util.np64(yl), [c03.to_complex(board + sgn * Rr if j == zj else h) for j, h in enumerate(yh0)],
                                           cell['biort'], cell['qshift']) for sgn in (1.0, -1.0))
            if not ok:
                out.append(res(VIOLATED, case, 'M-REF', 'library raised %r on a pyramid with a zero-sum level' % (y,)))
            else:
                okc, d, ratio = util.compare('inverse (one level sums to zero)', y, ref, 1e-11 * G * max(float(yl.abs().max()), 1.0) * 4)
                out.append(res(HELD, case, 'M-REF', ratio=ratio) if okc else res(VIOLATED, case, 'M-REF', d, ratio=ratio))
        except Exception as e:
            out.append(res(INCONCLUSIVE, case, 'M-REF', 'reference raised %r' % (e,)))
    # certificate
    yl, yh = make_pyramid(cell, 'randn', seed + 3, lo, det)
    if util.call_lib(inv, (yl, yh))[0]:
        st, detail, info = util.linear_certificate(lambda *t: inv((t[0], list(t[1:]))), [yl] + yh,
                                                   [torch.zeros_like(yl)] + [torch.zeros_like(h) for h in yh])
        case = {'cell': cell, 'input': 'certificate'}
        out.append(res(HELD, case, 'M-DISP.linear', info) if st == 'certified' else
                   res(INCONCLUSIVE, case, 'M-DISP.linear', '%s: %s' % (st, detail)))
    # absent entries, with the module in its default padding mode and (one cell in three) with the
    # padding-mode option set to 'zero': "absent = zeros" is a statement about the inverse as configured
    variants = [(inv, None, None)]
    if full and rnd.random() < 0.34:
        with util.default_dtype(torch.float64):
            variants.append((pw.DTCWTInverse(biort=cell['biort'], qshift=cell['qshift'], mode='zero'), 'zero', None))
    if full and rnd.random() < 0.34:
        # ... and with the orientation / complex axes somewhere else (the zeros that stand in for a missing
        # entry have to be sized from bandpasses laid out that way)
        from . import c12
        lay = rnd.choice([(1, -1), (0, 5), (2, 0), (5, 1), (3, 2), (-6, -1), (1, 0)])
        with util.default_dtype(torch.float64):
            variants.append((pw.DTCWTInverse(biort=cell['biort'], qshift=cell['qshift'], o_dim=lay[0], ri_dim=lay[1]), None, lay))
    for inv_, mode_, lay_ in (variants if full else []):
        yl, yh, tol = full['yl'], full['yh'], full['tol']
        if lay_:
            yh = [c12.expected_layout(h, lay_[0], lay_[1]).contiguous() for h in yh]
        masks = [m for m in itertools.product([False, True], repeat=J + 1) if any(m) and not all(m)]
        if len(masks) > 5:
            masks = rnd.sample(masks, 5)
        for mask in masks:
            zl = torch.zeros_like(yl) if mask[0] else yl
            zh = [torch.zeros_like(h) if mask[j + 1] else h for j, h in enumerate(yh)]
            ok0, y0 = util.call_lib(inv_, (zl, zh))
            if not ok0:
                out.append(res(INCONCLUSIVE, {'cell': cell, 'mask': list(mask)}, 'M-ABSENT',
                               'explicit-zeros run raised %r' % (y0,)))
                continue
            for enc in ENCODINGS:
                case = {'cell': cell, 'input': 'randn', 'absent_mask': list(mask), 'encoding': enc}
                if mode_:
                    case['mode'] = mode_
                if lay_:
                    case['layout'] = list(lay_)
                kf = kf_for(enc, mask, det, J)
                al = absent(enc, yl) if mask[0] else yl
                ah = [absent(enc, h) if mask[j + 1] else h for j, h in enumerate(yh)]
                ok, y = util.call_lib(inv_, (al, ah))
                if not ok:
                    out.append(res(VIOLATED, case, 'M-ABSENT', 'raised %r; explicit zeros reconstruct fine' % (y,),
                                   kf_key=kf))
                    continue
                okc, d, ratio = util.compare('absent vs zeros', y, util.np64(y0), tol)
                out.append(res(HELD, case, 'M-ABSENT', ratio=ratio) if okc else
                           res(VIOLATED, case, 'M-ABSENT', d, ratio=ratio, kf_key=kf))
    return out


def nontrivial(r):
    return r['monitor'] in ('M-REF', 'M-ABSENT')


def extra_cov(results, meta):
    d = c03.extra_cov(results, meta)
    enc = {}
    for r in results:
        if r['monitor'] == 'M-ABSENT' and r['case'].get('encoding'):
            k = '%s/%s' % (r['case']['encoding'], r['status'])
            enc[k] = enc.get(k, 0) + 1
    d['absent_cases_by_encoding_and_status'] = enc
    return d
