"""C04 - DTCWT perfect reconstruction with symmetric extension.

Monitor M-RT: DTCWTInverse is fed the very pyramid an observed DTCWTForward call returned; the
result must have shape (H + H%2, W + W%2) (M-SHAPE) and equal the recorded input in the top-left
HxW corner.  Impulse batches give S*A = I for the whole cell.
"""
import numpy as np
from .. import core, refs, util
from ..core import res, HELD, VIOLATED, INCONCLUSIVE
from . import c03

PROP = 'C04'
RULE = ('cells = (20 named (biort,qshift) pairs, J in 1..5, HxW from 2..37 incl. odd / non-multiple-of-4 '
        '/ smaller than the filters / non-square); per cell impulse batch (S*A=I) and dense / '
        'dynamic-range / structured inputs through forward then inverse; distinct by (cell, input kind); '
        'non-trivial when the input is not all-zero')
ASSUMPTIONS = ['float64; tolerance 1e-10 * analysis gain * synthesis gain * max|x|', 'sides <= 37, J <= 5']
TIMEOUT = {'quick': 900, 'thorough': 3300}
WORKER_BUDGET = {'quick': 600, 'thorough': 2700}
MIN_HELD = {'quick': 400, 'thorough': 63000}


def cells(tier, seed):
    out = c03.cells(tier, seed, 'c04')
    for extra in (['c04b'] if tier == 'quick' else ['c04b', 'c04c', 'c04d', 'c04e', 'c04f', 'c04g']):
        out = out + c03.cells(tier, seed, extra)
    return out


def run_cell(cell, seed):
    import torch
    import pytorch_wavelets as pw
    out = []
    fwd = c03.build(cell)
    with util.default_dtype(torch.float64):
        inv = pw.DTCWTInverse(biort=cell['biort'], qshift=cell['qshift'])
    sp = cell['shape']
    H, W = sp
    G = refs.dtcwt_gain(cell['biort'], cell['qshift'], cell['J']) * \
        refs.dtcwt_gain(cell['biort'], cell['qshift'], cell['J'], True)
    rnd = core.rng_for(seed, PROP, 'k', str(cell))
    for kind in ['impulse', 'randn', rnd.choice(['dynrange', 'const', 'alt', 'outlier', 'ramp'])]:
        case = {'cell': cell, 'input': kind}
        x = c03.impulse_input(cell, seed) if kind == 'impulse' else util.make_input(kind, [cell['N'], cell['C']] + sp, seed)
        ok, pyr = util.call_lib(fwd, x)
        if not ok:
            out.append(res(VIOLATED, case, 'M-RT', 'forward raised %r' % (pyr,)))
            continue
        ok, y = util.call_lib(inv, pyr)
        if not ok:
            out.append(res(VIOLATED, case, 'M-RT', 'inverse raised %r on the forward output' % (y,)))
            continue
        want = list(x.shape[:2]) + [H + H % 2, W + W % 2]
        if list(y.shape) != want:
            out.append(res(VIOLATED, case, 'M-SHAPE', 'reconstruction shape %s, expected %s' % (list(y.shape), want)))
            continue
        tol = 1e-10 * G * max(float(x.abs().max()), 1e-300)
        okc, detail, ratio = util.compare('inverse(forward(x))[:H,:W]', y[..., :H, :W], util.np64(x), tol)
        out.append(res(HELD, case, 'M-RT', ratio=ratio) if okc else res(VIOLATED, case, 'M-RT', detail, ratio=ratio))
    return out


def nontrivial(r):
    return r['monitor'] == 'M-RT'


def extra_cov(results, meta):
    d = c03.extra_cov([dict(r, monitor='M-REF') for r in results if r['monitor'] == 'M-RT'], meta)
    d.pop('cells_certified_linear', None)
    return d
