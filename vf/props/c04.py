"""C04 - DTCWT perfect reconstruction with symmetric extension.

Monitor M-RT: DTCWTInverse is fed the very pyramid an observed DTCWTForward call returned; the
result must have shape (H + H%2, W + W%2) (M-SHAPE) and equal the recorded input in the top-left
HxW corner.  Impulse batches give S*A = I for the whole cell.
"""
import numpy as np
from .. import core, refs, util
from ..core import res, HELD, VIOLATED, INCONCLUSIVE
from . import c03

PROP = 'C04'
RULE = ('cells = (20 named (biort,qshift) pairs, J in 1..5, HxW from 2..37 incl. odd / non-multiple-of-4 '
        '/ smaller than the filters / non-square); per cell impulse batch (S*A=I) and dense / '
        'dynamic-range / structured inputs through forward then inverse; distinct by (cell, input kind); '
        'non-trivial when the input is not all-zero'
        '; the same round trip through converted module pairs (float32-built .double(), float64-built .float()) at float32 tap precision; one 7x1x1600x1600 round trip (large-input regime)')
ASSUMPTIONS = ['float64; tolerance 1e-10 * analysis gain * synthesis gain * max|x|', 'sides <= 37, J <= 5']
TIMEOUT = {'quick': 900, 'thorough': 3300}
WORKER_BUDGET = {'quick': 600, 'thorough': 2700}
MIN_HELD = {'quick': 400, 'thorough': 63000}


def cells(tier, seed):
    out = c03.cells(tier, seed, 'c04')
    for extra in (['c04b'] if tier == 'quick' else ['c04b', 'c04c', 'c04d', 'c04e', 'c04f', 'c04g']):
        out = out + c03.cells(tier, seed, extra)
    # the large-input regime is sampled by one cell (three in the thorough tier)
    rnd = core.rng_for(seed, PROP, 'large', tier)
    for k in range(1 if tier == 'quick' else 3):
        out.insert(0, {'large': True, 'biort': rnd.choice(refs.BIORTS), 'qshift': rnd.choice(refs.QSHIFTS), 'J': rnd.choice([1, 2]),
                       'shape': [1600 + 2 * rnd.randrange(0, 20), 1600], 'N': rnd.choice([5, 7]), 'C': 1})
    return out


def large_cell(cell, seed):
    """one execution in the large-input regime (more than 2^24 elements in one call, batch size not a
    power of two): float32, judged at float32 accuracy, plus slice 0 against the same slice alone"""
    import torch
    import pytorch_wavelets as pw
    N, H, W, J = cell['N'], cell['shape'][0], cell['shape'][1], cell['J']
    fwd = pw.DTCWTForward(biort=cell['biort'], qshift=cell['qshift'], J=J)
    inv = pw.DTCWTInverse(biort=cell['biort'], qshift=cell['qshift'])
    x = torch.randn(N, 1, H, W, generator=util.gen(seed, 'large'), dtype=torch.float32)
    case = {'cell': cell, 'input': 'randn-large'}
    out = []
    with torch.no_grad():
        ok, pyr = util.call_lib(fwd, x)
        if not ok:
            return [res(VIOLATED, case, 'M-RT', 'forward raised %r' % (pyr,))]
        ok, y = util.call_lib(inv, pyr)
        if not ok:
            return [res(VIOLATED, case, 'M-RT', 'inverse raised %r' % (y,))]
        G = refs.dtcwt_gain(cell['biort'], cell['qshift'], J) * refs.dtcwt_gain(cell['biort'], cell['qshift'], J, True)
        tol = 64 * util.EPS32 * G * float(x.abs().max())
        worst, fail = 0.0, None
        for n in range(N):          # per batch item, so that a lost slab is named
            e = float((y[n, :, :H, :W] - x[n]).abs().max())
            worst = max(worst, e / tol)
            if e > tol and fail is None:
                fail = 'batch item %d of %d: max|inverse(forward(x)) - x| = %.3e > tol %.3e' % (n, N, e, tol)
        out.append(res(HELD, case, 'M-RT', ratio=worst) if fail is None else res(VIOLATED, case, 'M-RT', fail, ratio=worst))
        # last batch item alone must give the same pyramid
        ok, p1 = util.call_lib(fwd, x[N - 1:N])
        if ok:
            e = max(float((a[N - 1:N] - b).abs().max()) for a, b in zip(util.flat_outputs(pyr), util.flat_outputs(p1)))
            t2 = 16 * util.EPS32 * refs.dtcwt_gain(cell['biort'], cell['qshift'], J) * float(x.abs().max())
            c2 = {'cell': cell, 'input': 'randn-large', 'check': 'last item alone'}
            out.append(res(HELD, c2, 'M-RT', ratio=e / t2) if e <= t2 else
                       res(VIOLATED, c2, 'M-RT', 'last batch item differs from the same image transformed alone by %.3e' % e, ratio=e / t2))
    return out


def run_cell(cell, seed):
    import torch
    import pytorch_wavelets as pw
    if cell.get('large'):
        return large_cell(cell, seed)
    out = []
    fwd = c03.build(cell)
    with util.default_dtype(torch.float64):
        inv = pw.DTCWTInverse(biort=cell['biort'], qshift=cell['qshift'])
    sp = cell['shape']
    H, W = sp
    G = refs.dtcwt_gain(cell['biort'], cell['qshift'], cell['J']) * \
        refs.dtcwt_gain(cell['biort'], cell['qshift'], cell['J'], True)
    rnd = core.rng_for(seed, PROP, 'k', str(cell))
    for kind in ['impulse', 'randn', rnd.choice(['dynrange', 'const', 'alt', 'outlier', 'ramp'])]:
        case = {'cell': cell, 'input': kind}
        x = c03.impulse_input(cell, seed) if kind == 'impulse' else util.make_input(kind, [cell['N'], cell['C']] + sp, seed)
        # the structured input class is sent through both modules in eval() mode (inference use)
        call = util.call_lib if kind in ('impulse', 'randn') else util.call_lib_eval
        if call is util.call_lib_eval:
            case['modules'] = 'eval() mode'
        ok, pyr = call(fwd, x)
        if not ok:
            out.append(res(VIOLATED, case, 'M-RT', 'forward raised %r' % (pyr,)))
            continue
        ok, y = call(inv, pyr)
        if not ok:
            out.append(res(VIOLATED, case, 'M-RT', 'inverse raised %r on the forward output' % (y,)))
            continue
        want = list(x.shape[:2]) + [H + H % 2, W + W % 2]
        if list(y.shape) != want:
            out.append(res(VIOLATED, case, 'M-SHAPE', 'reconstruction shape %s, expected %s' % (list(y.shape), want)))
            continue
        # measured: the float64 round-trip error stays below 1.2e-17 * G * max|x| over several thousand cells;
        # 1e-12 leaves a factor 1e3 for rounding and still sees a relative defect of 1e-9
        tol = 1e-12 * G * max(float(x.abs().max()), 1e-300)
        okc, detail, ratio = util.compare('inverse(forward(x))[:H,:W]', y[..., :H, :W], util.np64(x), tol)
        out.append(res(HELD, case, 'M-RT', ratio=ratio) if okc else res(VIOLATED, case, 'M-RT', detail, ratio=ratio))
    # the same pair of modules after the usual nn.Module precision conversion (built in float32, .double()
    # for float64 images; built in float64, .float() for float32 images): still the same filters.  Taps that
    # were rounded to float32 at construction keep that rounding after .double(), so "up to rounding" is the
    # float32 tap precision (a few 1e-7 relative, measured) in both cases, not float64 arithmetic precision.
    for build, conv, dt, eps in ((torch.float32, 'double', torch.float64, 1e-6), (torch.float64, 'float', torch.float32, 2e-4)):
        case = {'cell': cell, 'input': 'randn', 'modules': 'built %s, converted with .%s()' % (str(build).replace('torch.', ''), conv)}
        with util.default_dtype(build):
            f2 = pw.DTCWTForward(biort=cell['biort'], qshift=cell['qshift'], J=cell['J'])
            i2 = pw.DTCWTInverse(biort=cell['biort'], qshift=cell['qshift'])
        f2, i2 = getattr(f2, conv)(), getattr(i2, conv)()
        x = util.make_input('randn', [cell['N'], cell['C']] + sp, seed + 5, dt)
        ok, pyr = util.call_lib(f2, x)
        if not ok:
            out.append(res(VIOLATED, case, 'M-RT', 'forward raised %r' % (pyr,)))
            continue
        ok, y = util.call_lib(i2, pyr)
        if not ok:
            out.append(res(VIOLATED, case, 'M-RT', 'inverse raised %r on the forward output' % (y,)))
            continue
        want = list(x.shape[:2]) + [H + H % 2, W + W % 2]
        if list(y.shape) != want or y.dtype != dt:
            out.append(res(VIOLATED, case, 'M-SHAPE', 'reconstruction %s %s, expected %s %s' % (list(y.shape), y.dtype, want, dt)))
            continue
        tol = eps * G * max(float(x.abs().max()), 1e-300)
        okc, detail, ratio = util.compare('inverse(forward(x))[:H,:W]', y[..., :H, :W], util.np64(x), tol)
        out.append(res(HELD, case, 'M-RT', ratio=ratio) if okc else res(VIOLATED, case, 'M-RT', detail, ratio=ratio))
    return out


def nontrivial(r):
    return r['monitor'] == 'M-RT'


def extra_cov(results, meta):
    d = c03.extra_cov([dict(r, monitor='M-REF') for r in results if r['monitor'] == 'M-RT'], meta)
    d.pop('cells_certified_linear', None)
    return d
