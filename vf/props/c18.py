"""C18 - shipped DTCWT filter tables satisfy the identities the code relies on.

Runtime contracts (icontract `ensure`, record-and-return-True) are attached to the three loaders
biort() / level1() / qshift() in every module that imported them, so *every load observed* -
direct calls, module constructions, concurrent loads from a cold cache - is checked:
  M-TABLE.ref       bit equality with the reference package's table of the same name;
  M-TABLE.identity  level-1: every filter symmetric, H0*G0 + H1*G1 = delta (band-pass h2/g2
                    symmetric); q-shift: orthonormal at even lags, h0a _|_ h1a at even lags,
                    tree b = reverse(tree a), synthesis = reverse(analysis) (band-pass included);
  M-TABLE.disk      equality with the bytes on disk re-read without the cache;
  M-TABLE.idem      two loads return equal values; arrays cached read-only (write trap).
The workload is exhaustive over the finite space: every .npz x every loader x compact/non-compact
x first/second load x cold/warm cache x 1..8 loading threads.
"""
import os, glob, threading
import numpy as np
from .. import core, util
from ..core import res, HELD, VIOLATED, INCONCLUSIVE

PROP = 'C18'
RULE = ('exhaustive over {14 shipped .npz tables} x {biort, level1(compact), level1(non-compact), qshift} '
        'x {cold, warm cache} x {1,2,4,8 loading threads}, plus construction of every transform / '
        'scattering module that loads the table; every loader return is judged by the contracts; '
        'distinct by (table, loader, scenario, check); non-trivial = the loader returned arrays'
        "; DWT modules built from the loader's own arrays through the tuple form under a float64 default and reloaded in place, followed by a re-load of the table (zero-copy aliasing of the shipped tables)")
ASSUMPTIONS = ['dtcwt 0.14 coefficient tables are the reference', 'identity tolerance 5e-9 for PR / '
               'orthonormality (qshift_32 is orthonormal to 1.5e-9 only, in the reference package too), '
               'exact (1e-15) for the reversal identities',
               'farras / near_sym_a2 are tree-a/tree-b level-1 tables of an unimported experimental module, '
               'have no reference counterpart and are rejected by biort(): for them only disk equality, '
               'idempotence, finiteness and continued rejection are checked']
TIMEOUT = {'quick': 600, 'thorough': 1800}
MIN_HELD = {'quick': 100, 'thorough': 6016}
EXHAUSTIVE = {'quick': True, 'thorough': True}
BIORT_NAMES = ['antonini', 'legall', 'near_sym_a', 'near_sym_b', 'near_sym_b_bp']
QSHIFT_NAMES = ['qshift_06', 'qshift_32', 'qshift_a', 'qshift_b', 'qshift_c', 'qshift_d', 'qshift_b_bp']
DUALTREE_L1 = ['farras', 'near_sym_a2']
TOL_ID, TOL_EXACT = 5e-9, 1e-15

_OBS = []           # contract observations of the current cell
_LOCK = threading.Lock()
_INSTALLED = False


def data_dir():
    return os.path.join(core.repo_path(), 'pytorch_wavelets', 'dtcwt', 'data')


def table_names():
    return sorted(os.path.basename(f)[:-4] for f in glob.glob(os.path.join(data_dir(), '*.npz')))


def cells(tier, seed):
    out = []
    threads = [1, 2, 4, 8] if tier == 'quick' else [1, 2, 3, 4, 5, 6, 7, 8]
    for name in table_names():
        for nt in threads:
            for warm in (False, True):
                out.append({'table': name, 'threads': nt, 'warm': warm})
    # histories over ALL tables: the cache fills up to its 14 entries in a seeded order, every table is
    # loaded again afterwards; every loader return is judged by the contracts
    for k in range(6 if tier == 'quick' else 24):
        out.append({'table': '*', 'threads': [1, 1, 2, 4][k % 4], 'warm': False, 'order': seed * 100 + k})
    # cold races: many threads start together on an emptied cache, each with a different table first, under
    # injected pre-emption between the statements of the loader (what two modules constructed concurrently do)
    for k in range(4 if tier == 'quick' else 24):
        out.append({'table': '*', 'threads': [8, 12][k % 2], 'warm': False, 'order': seed * 100 + 50 + k, 'race': True,
                    'rounds': 12 if tier == 'quick' else 40, 'p_yield': [0.3, 0.1, 0.6, 0.0][k % 4]})
    return out


# ---- contract conditions (record and return True) -------------------------------------------

def _rec(loader, name, check, ok, detail=None, ratio=None):
    with _LOCK:
        _OBS.append({'loader': loader, 'table': name, 'check': check, 'ok': ok, 'detail': detail,
                     'ratio': ratio, 'thread': threading.current_thread().name})


def _flat(a):
    return np.asarray(a, dtype=np.float64).ravel()


def check_ref(loader, name, got, ref):
    if len(got) != len(ref):
        _rec(loader, name, 'ref', False, 'returned %d arrays, reference %d' % (len(got), len(ref)))
        return
    for i, (a, b) in enumerate(zip(got, ref)):
        if np.asarray(a).shape != np.asarray(b).shape or not np.array_equal(a, b):
            _rec(loader, name, 'ref', False, 'array %d differs from the reference package table' % i)
            return
    _rec(loader, name, 'ref', True, ratio=0.0)


def check_level1(loader, name, t):
    worst, fail = 0.0, None
    fl = [_flat(x) for x in t]
    for i, f in enumerate(fl):
        e = float(np.abs(f - f[::-1]).max())
        worst = max(worst, e / 1e-12)
        if e > 1e-12 and fail is None:
            fail = 'level-1 filter %d is not symmetric (max asymmetry %.3e)' % (i, e)
    h0, g0, h1, g1 = fl[:4]
    p = np.convolve(h0, g0)
    q = np.convolve(h1, g1)
    if len(p) != len(q) or len(p) % 2 == 0:
        fail = fail or 'H0*G0 and H1*G1 have incompatible lengths %d, %d' % (len(p), len(q))
    else:
        s = p + q
        s[len(s) // 2] -= 1.0
        e = float(np.abs(s).max())
        worst = max(worst, e / TOL_ID)
        if e > TOL_ID and fail is None:
            fail = 'H0*G0 + H1*G1 deviates from delta by %.3e' % e
    _rec(loader, name, 'identity', fail is None, fail, worst)


def check_qshift(loader, name, t):
    fl = [_flat(x) for x in t]
    worst, fail = 0.0, None

    def note(e, tol, msg):
        nonlocal worst, fail
        worst = max(worst, e / tol)
        if e > tol and fail is None:
            fail = '%s (%.3e)' % (msg, e)
    h0a, h0b, g0a, g0b, h1a, h1b, g1a, g1b = fl[:8]
    L = len(h0a)
    for nm, h in (('h0a', h0a), ('h1a', h1a)):
        ac = np.correlate(h, h, 'full')
        mid = len(h) - 1
        lags = np.arange(len(ac)) - mid
        ev = ac[lags % 2 == 0] - (lags[lags % 2 == 0] == 0)
        note(float(np.abs(ev).max()), TOL_ID, '%s is not orthonormal to its even shifts' % nm)
    cc = np.correlate(h0a, h1a, 'full')
    lags = np.arange(len(cc)) - (L - 1)
    note(float(np.abs(cc[lags % 2 == 0]).max()), TOL_ID, 'h0a is not orthogonal to the even shifts of h1a')
    pairs = [('h0b', h0b, 'h0a', h0a), ('h1b', h1b, 'h1a', h1a), ('g0a', g0a, 'h0a', h0a), ('g1a', g1a, 'h1a', h1a),
             ('g0b', g0b, 'h0b', h0b), ('g1b', g1b, 'h1b', h1b)]
    if len(fl) == 12:
        h2a, h2b, g2a, g2b = fl[8:]
        pairs += [('h2b', h2b, 'h2a', h2a), ('g2a', g2a, 'h2a', h2a), ('g2b', g2b, 'h2b', h2b)]
    for n1, a, n2, b in pairs:
        if a.shape != b.shape:
            fail = fail or '%s and %s have different lengths' % (n1, n2)
        else:
            note(float(np.abs(a - b[::-1]).max()), TOL_EXACT, '%s is not the time-reverse of %s' % (n1, n2))
    _rec(loader, name, 'identity', fail is None, fail, worst)


def post_level1(name, result, compact=False, loader='level1'):
    import dtcwt.coeffs as dc
    if name in DUALTREE_L1:
        ok = all(np.all(np.isfinite(_flat(x))) for x in result)
        _rec(loader, name, 'finite', ok, None if ok else 'non-finite taps')
        return True
    if compact:
        try:
            check_ref(loader, name, result, dc.biort(name))
        except Exception as e:
            _rec(loader, name, 'ref', None, 'reference raised %r' % (e,))
        check_level1(loader, name, result)
    return True


def post_biort(name, result):
    if name in DUALTREE_L1:
        # an asymmetric tree-a/b table reached the transforms' loader: the symmetry contract fires
        check_level1('biort', name, result)
        return True
    return post_level1(name, result, True, 'biort')


KF_QL1 = 'qshift-loader-accepts-dualtree-level1-table'


def post_qshift(name, result):
    import dtcwt.coeffs as dc
    if name in DUALTREE_L1:
        # qshift() hands out a tree-a/tree-b *level-1* table (no reference counterpart) as a q-shift
        # table: the identities the q-shift consumers rely on are checked on what it returned
        check_qshift('qshift', name, result)
        return True
    try:
        check_ref('qshift', name, result, dc.qshift(name))
    except Exception as e:
        _rec('qshift', name, 'ref', None, 'reference raised %r' % (e,))
    check_qshift('qshift', name, result)
    return True


class ContractBroken(Exception):
    pass


def install_contracts():
    global _INSTALLED
    if _INSTALLED:
        return
    import icontract
    import pytorch_wavelets.dtcwt.coeffs as coeffs
    from .. import attach
    for fname, post in (('level1', post_level1), ('biort', post_biort), ('qshift', post_qshift)):
        orig = getattr(coeffs, fname)
        wrapped = icontract.ensure(post, error=ContractBroken)(orig)
        n = attach.rebind_everywhere(orig, wrapped)
        assert n >= 1
    _INSTALLED = True


def worker_setup(tier, seed):
    from .. import attach
    attach.install(dispatch=False, functions=False)
    install_contracts()


def disk_table(name):
    with np.load(os.path.join(data_dir(), name + '.npz')) as f:
        return {k: np.array(f[k]) for k in f.files}


def all_tables_cell(cell, seed):
    import random
    import pytorch_wavelets.dtcwt.coeffs as coeffs
    cache = coeffs.COEFF_CACHE
    cache.clear()
    if hasattr(cache, 'digests'):
        cache.digests.clear()
    del _OBS[:]
    names = table_names()
    first = {}
    lock = threading.Lock()
    mism = []

    def loader_for(n):
        if n in BIORT_NAMES:
            return 'biort', (lambda: coeffs.biort(n))
        if n in QSHIFT_NAMES:
            return 'qshift', (lambda: coeffs.qshift(n))
        return 'level1', (lambda: coeffs.level1(n, compact=False))

    race = bool(cell.get('race'))
    if race:
        from .. import inject
        import sys
        inject.enable()
        sys.setswitchinterval(1e-5)

        def fresh_round():
            cache.clear()
            if hasattr(cache, 'digests'):
                cache.digests.clear()
        barrier = threading.Barrier(cell['threads'], action=fresh_round)

    def work(tid):
        rnd = random.Random(cell['order'] * 31 + tid)
        if race:
            inject.thread_init(cell['order'] * 131 + tid, cell.get('p_yield', 0.3))
        for rep in range(cell.get('rounds', 3)):
            order = list(names)
            rnd.shuffle(order)
            if race:
                # every thread starts the round with another table, all of them not yet cached
                first_ = names[(tid + rep) % len(names)]
                order = [first_] + [n for n in order if n != first_][:3]
                try:
                    barrier.wait(timeout=120)
                except threading.BrokenBarrierError:
                    return
            for n in order:
                ln, fn = loader_for(n)
                try:
                    r = [np.array(a) for a in fn()]
                except Exception as e:
                    with lock:
                        mism.append('%s(%s) raised %r' % (ln, n, e))
                    continue
                with lock:
                    f = first.setdefault(n, r)
                    if len(f) != len(r) or not all(np.array_equal(a, b) for a, b in zip(f, r)):
                        mism.append('%s(%s): load %d with %d tables cached differs from the first load' % (ln, n, rep, len(cache)))
    if cell['threads'] == 1:
        work(0)
    else:
        ths = [threading.Thread(target=work, args=(i,)) for i in range(cell['threads'])]
        for t in ths:
            t.start()
        for t in ths:
            t.join()
    if race:
        sys.setswitchinterval(0.005)
    out = []
    base = {'cell': cell}
    for o in list(_OBS):
        case = dict(base, table=o['table'], loader=o['loader'], check=o['check'])
        mon = 'M-TABLE.' + o['check']
        if o['ok'] is None:
            out.append(res(INCONCLUSIVE, case, mon, o['detail']))
        elif o['ok']:
            out.append(res(HELD, case, mon, ratio=o['ratio']))
        else:
            kf = KF_QL1 if (o['loader'] == 'qshift' and o['table'] in DUALTREE_L1) else None
            out.append(res(VIOLATED, case, mon, o['detail'], ratio=o['ratio'], kf_key=kf))
    case = dict(base, check='idempotent-with-full-cache', tables_cached=len(cache))
    out.append(res(HELD, case, 'M-TABLE.idem', '%d tables cached, %d loads' % (len(cache), 3 * len(names) * cell['threads']), ratio=0.0)
               if not mism else res(VIOLATED, case, 'M-TABLE.idem', mism[0]))
    for n in names:
        disk = disk_table(n)
        ent = dict.__getitem__(cache, n) if n in cache else None
        if not isinstance(ent, dict):
            continue            # another cache layout: the loader returns are compared with the disk instead
        okd = all(k in disk and np.array_equal(disk[k], v) for k, v in ent.items())
        case = dict(base, table=n, check='disk-with-full-cache')
        out.append(res(HELD, case, 'M-TABLE.disk', ratio=0.0) if okd else
                   res(VIOLATED, case, 'M-TABLE.disk', 'cached table differs from the table on disk'))
    from .. import attach
    for v in attach.drain():
        out.append(res(VIOLATED, dict(base, check='cache'), v['monitor'], v['detail']))
    if hasattr(cache, 'events'):
        del cache.events[:]
    return out


def run_cell(cell, seed):
    import torch
    import pytorch_wavelets as pw
    import pytorch_wavelets.dtcwt.coeffs as coeffs
    if cell['table'] == '*':
        return all_tables_cell(cell, seed)
    name, nt = cell['table'], cell['threads']
    out = []
    cache = coeffs.COEFF_CACHE
    cache.clear()
    if hasattr(cache, 'digests'):
        cache.digests.clear()
    del _OBS[:]
    if cell['warm']:
        try:
            coeffs.level1(name, compact=False)
        except Exception:
            pass
        del _OBS[:]
    returned = {}
    errors = {}

    def loads(tid):
        for loader, fn in (('biort', lambda: coeffs.biort(name)), ('level1c', lambda: coeffs.level1(name, compact=True)),
                           ('level1', lambda: coeffs.level1(name, compact=False)), ('qshift', lambda: coeffs.qshift(name))):
            for rep in (0, 1):
                try:
                    r = fn()
                    with _LOCK:
                        returned.setdefault(loader, []).append([np.array(a) for a in r])
                except Exception as e:
                    with _LOCK:
                        errors.setdefault(loader, []).append(repr(e))
        # the real consumers
        try:
            if name in BIORT_NAMES and name != 'near_sym_b_bp':
                pw.DTCWTForward(biort=name, J=1)
                pw.DTCWTInverse(biort=name)
            if name in BIORT_NAMES:
                pw.ScatLayer(biort=name)
            if name in QSHIFT_NAMES and name != 'qshift_b_bp':
                pw.DTCWTForward(qshift=name, J=2)
                pw.DTCWTInverse(qshift=name)
            if name == 'qshift_b_bp':
                pw.ScatLayerj2(biort='near_sym_b_bp', qshift='qshift_b_bp')
            if name in QSHIFT_NAMES:
                # the documented tuple form of the DWT constructors, fed with the loader's own arrays, then an
                # in-place state reload: the shipped table must be unaffected (checked by the loads that follow)
                import torch
                t = coeffs.qshift(name)
                from .. import util as _u
                with _u.default_dtype(torch.float64):
                    m1 = pw.DWT1DInverse(wave=(t[2], t[6]))
                    m2 = pw.DWT1DInverse(wave=(np.array(t[3]) * 0.5, np.array(t[7]) * 0.5))
                    m3 = pw.DWT1DForward(J=1, wave=(t[0], t[4]))
                try:
                    m1.load_state_dict(m2.state_dict())
                except Exception:
                    pass
                coeffs.qshift(name)
        except Exception as e:
            with _LOCK:
                errors.setdefault('construct', []).append(repr(e))
    if nt == 1:
        loads(0)
    else:
        ths = [threading.Thread(target=loads, args=(i,), name='loader-%d' % i) for i in range(nt)]
        for t in ths:
            t.start()
        for t in ths:
            t.join()
    base = {'cell': cell}
    # 1. contract observations
    for o in list(_OBS):
        if o['table'] != name:
            continue     # a consumer also loads its default partner table; judged in that table's cells
        case = dict(base, loader=o['loader'], check=o['check'])
        mon = 'M-TABLE.' + o['check']
        if o['ok'] is None:
            out.append(res(INCONCLUSIVE, case, mon, o['detail']))
        elif o['ok']:
            out.append(res(HELD, case, mon, ratio=o['ratio']))
        else:
            kf = KF_QL1 if (o['loader'] == 'qshift' and name in DUALTREE_L1) else None
            out.append(res(VIOLATED, case, mon, o['detail'], ratio=o['ratio'], kf_key=kf))
    # 2. acceptance / rejection pattern
    accept = {'biort': name in BIORT_NAMES, 'level1c': name in BIORT_NAMES,
              'level1': name in QSHIFT_NAMES + DUALTREE_L1, 'qshift': name in QSHIFT_NAMES}
    for loader, want in accept.items():
        if loader == 'qshift' and name in DUALTREE_L1:
            continue      # not specified either way; what it returns is judged by the identity contract
        case = dict(base, loader=loader, check='accepts')
        got = loader in returned
        if got != want or (loader in errors and want):
            out.append(res(VIOLATED, case, 'M-TABLE.accepts', 'loader %s %s table %s (errors: %s)' % (
                loader, 'accepted' if got else 'rejected', name, errors.get(loader, [])[:1])))
        else:
            out.append(res(HELD, case, 'M-TABLE.accepts', 'accepted' if want else 'rejected as expected', ratio=0.0))
    if 'construct' in errors:
        out.append(res(VIOLATED, dict(base, check='construct'), 'M-TABLE.accepts',
                       'constructing a consumer module raised %s' % errors['construct'][:1]))
    # 3. idempotence + disk equality of everything returned
    disk = disk_table(name)
    keys = {'biort': ('h0o', 'g0o', 'h1o', 'g1o', 'h2o', 'g2o'), 'level1c': ('h0o', 'g0o', 'h1o', 'g1o', 'h2o', 'g2o'),
            'level1': ('h0a', 'h0b', 'g0a', 'g0b', 'h1a', 'h1b', 'g1a', 'g1b'),
            'qshift': ('h0a', 'h0b', 'g0a', 'g0b', 'h1a', 'h1b', 'g1a', 'g1b', 'h2a', 'h2b', 'g2a', 'g2b')}
    for loader, rets in returned.items():
        case = dict(base, loader=loader, check='idempotent', loads=len(rets))
        same = all(len(r) == len(rets[0]) and all(np.array_equal(a, b) for a, b in zip(r, rets[0])) for r in rets)
        out.append(res(HELD, case, 'M-TABLE.idem', ratio=0.0) if same else
                   res(VIOLATED, case, 'M-TABLE.idem', 'two loads of the same table returned different values'))
        case = dict(base, loader=loader, check='disk')
        ks = keys[loader][:len(rets[0])]
        okd = all(k in disk and np.array_equal(disk[k], a) for k, a in zip(ks, rets[0]))
        out.append(res(HELD, case, 'M-TABLE.disk', ratio=0.0) if okd else
                   res(VIOLATED, case, 'M-TABLE.disk', 'returned arrays differ from the table on disk'))
    # 4. cache monitor
    from .. import attach
    for v in attach.drain():
        out.append(res(VIOLATED, dict(base, check='cache'), v['monitor'], v['detail']))
    if name in cache and isinstance(dict.__getitem__(cache, name), dict):
        ent = dict.__getitem__(cache, name)
        ro = all(not a.flags.writeable for a in ent.values() if isinstance(a, np.ndarray))
        case = dict(base, check='cache-content')
        okc = all(k in disk and np.array_equal(disk[k], v) for k, v in ent.items())
        out.append(res(HELD, case, 'M-CACHE', 'read-only=%s sets=%d' % (
            ro, sum(1 for e in getattr(cache, 'events', []) if e[0] == 'set' and e[1] == name)), ratio=0.0)
            if okc else res(VIOLATED, case, 'M-CACHE', 'cached table differs from the table on disk'))
    if hasattr(cache, 'events'):
        del cache.events[:]
    return out


def extra_cov(results, meta):
    tabs = set(r['case']['cell']['table'] for r in results if r['case'].get('cell')) - {'*'}
    return {'tables_covered': sorted(tabs), 'loader_returns_judged': sum(
        1 for r in results if r['monitor'] in ('M-TABLE.ref', 'M-TABLE.identity')),
        'thread_counts': sorted(set(r['case']['cell']['threads'] for r in results if r['case'].get('cell')))}
