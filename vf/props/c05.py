"""C05 - DWT back-propagation is the exact adjoint, for every grad subset.

Monitor M-JAC (module level).  The oracle shares no code with the backward: the operator A of the
forward module (S of the inverse module) is *extracted from forward executions on impulses*; then
  * the full autograd Jacobian is obtained from ONE batched backward execution (batch item k
    carries the unit cotangent e_k; slices are independent) at a random point and at the origin
    and compared entry-wise with A (resp. S);
  * for the inverse every one of the 2^(J+1)-1 requires-grad patterns over (yl, yh_1..yh_J) is
    executed with random cotangents; each argument that requires grad must receive S_block^T g.
Monitor M-FN (Function level): every invocation of AFB1D/AFB2D/SFB1D/SFB2D.backward observed in the
run is compared with torch's native VJP of the same Function's forward body.
Known-finding cells (boundary-extension modes, odd-length periodization) keep a *localisation*
check: the Jacobian must still be exact for every input whose column is not touched by the
boundary extension, so a different backward defect in those modes is still reported.
"""
import itertools
import numpy as np
import pywt
from .. import core, refs, util
from ..core import res, HELD, VIOLATED, INCONCLUSIVE
from . import c01, c10

PROP = 'C05'
RULE = ('cells = (direction, dim, wavelet from all families with L<=20, mode, J in 1..3, sizes 4..17 / '
        '2-D 4..12 incl. odd and non-square); per cell: operator from impulse executions, full '
        'Jacobian from one batched backward at two points, all requires-grad patterns of the inverse '
        'with random cotangents, Function-level VJP comparisons for every backward invocation; '
        'distinct by (cell, check, pattern); non-trivial when the cotangent is non-zero')
ASSUMPTIONS = ['float64; tolerance 1e-11 * gain * max|g|', 'torch native autograd is trusted for plain torch code',
               'sizes and J bounded']
TIMEOUT = {'quick': 900, 'thorough': 3300}
WORKER_BUDGET = {'quick': 600, 'thorough': 2700}
MIN_HELD = {'quick': 300, 'thorough': 88609}
EXT = ('symmetric', 'reflect', 'periodic')
KF_FWD_EXT = 'forward-backward-omits-adjoint-of-boundary-extension'
KF_INV_EXT = 'inverse-backward-applies-boundary-extension'
KF_FWD_ODD = 'forward-periodization-odd-length-duplicate-gradient-dropped'
WAVES_Q = ['haar', 'db2', 'db3', 'db4', 'db7', 'db10', 'sym2', 'sym4', 'sym5', 'sym8', 'coif1', 'coif2', 'coif3',
           'bior1.3', 'bior1.5', 'bior2.2', 'bior2.4', 'bior2.6', 'bior3.1', 'bior3.3', 'bior3.5', 'bior4.4',
           'bior5.5', 'bior6.8', 'rbio1.3', 'rbio2.2', 'rbio2.4', 'rbio3.1', 'rbio3.3', 'rbio4.4', 'rbio6.8']
LENS = [4, 5, 6, 7, 8, 9, 12, 13, 16, 17, 40, 41]
SIDES = [4, 5, 6, 7, 8, 9, 12]


def cells(tier, seed):
    rnd = core.rng_for(seed, PROP, tier)
    waves = WAVES_Q if tier == 'quick' else [w for w in refs.all_wavelets() if refs.flen(w) <= 20]
    reps = 1 if tier == 'quick' else 30
    out = []
    for w in waves:
        for mode in refs.MODES:
            for direction in ('forward', 'inverse'):
                for _ in range(reps):
                    out.append({'dir': direction, 'dim': 1, 'wave': w, 'mode': mode, 'J': rnd.choice([1, 2, 3]),
                                'shape': [rnd.choice(LENS)], 'N': 1, 'C': 1})
                    h, wd = rnd.choice(SIDES), rnd.choice(SIDES)
                    out.append({'dir': direction, 'dim': 2, 'wave': w, 'mode': mode, 'J': rnd.choice([1, 1, 2]),
                                'shape': [h, wd], 'N': 1, 'C': 1})
    for name, filt in CUSTOM.items():
        for direction in ('forward', 'inverse'):
            for _ in range(2 if tier == 'quick' else 12):
                dim = rnd.choice([1, 2])
                out.append({'dir': direction, 'dim': dim, 'wave': name, 'filters': [list(filt[0]), list(filt[1])], 'mode': 'zero',
                            'J': rnd.choice([1, 2]), 'shape': [rnd.choice(LENS[:10])] if dim == 1 else [rnd.choice(SIDES), rnd.choice(SIDES)],
                            'N': 1, 'C': 1})
    rnd.shuffle(out)
    if tier == 'thorough':
        out.insert(0, {'suite': True, 'dir': 'suite', 'dim': 0, 'wave': 'repository tests', 'mode': '-', 'J': 0, 'shape': []})
    return out


# custom filter banks with an ODD number of taps (tuple form of the constructors; no pywt wavelet has
# odd length).  Only 'zero' mode: the library's periodization and extension arithmetic assumes even L.
S2 = 2 ** 0.5
CUSTOM = {
    'legall-5/3-padded': ([-S2 / 8, S2 / 4, 3 * S2 / 4, S2 / 4, -S2 / 8], [0.0, -S2 / 4, S2 / 2, -S2 / 4, 0.0]),
    'odd-7': ([0.02, -0.05, 0.3, 0.7, 0.35, -0.08, 0.01], [0.01, 0.06, -0.4, 0.75, -0.33, -0.07, 0.02]),
    'odd-3': ([0.25, 0.5, 0.25], [-0.5, 1.0, -0.5]),
}


def build_custom(cell):
    import torch
    import pytorch_wavelets as pw
    f0, f1 = [np.array(f) for f in cell['filters']]
    with util.default_dtype(torch.float64):
        if cell['dir'] == 'forward':
            return (pw.DWT1DForward if cell['dim'] == 1 else pw.DWTForward)(J=cell['J'], wave=(f0, f1), mode=cell['mode'])
        return (pw.DWT1DInverse if cell['dim'] == 1 else pw.DWTInverse)(wave=(f0, f1), mode=cell['mode'])


def kf_for(cell):
    if cell.get('filters'):
        return None
    L = refs.flen(cell['wave'])
    mode = cell['mode']
    lens = [c01.level_lengths(n, L, mode, cell['J']) for n in cell['shape']]
    if cell['dir'] == 'forward':
        if mode in EXT:
            for l in lens:
                for n in l:
                    if 2 * (pywt.dwt_coeff_len(n, L, mode) - 1) - n + L > 0:
                        return KF_FWD_EXT
        return None
    if mode in EXT and L > 2:
        return KF_INV_EXT
    return None


def flat_batch(ts, k):
    return np.concatenate([util.np64(t).reshape(k, -1) for t in ts], axis=1)


def forward_dir(cell, seed, mod=None, tag=''):
    import torch
    out = []
    kf = kf_for(cell)
    mod = mod if mod is not None else (build_custom(cell) if cell.get('filters') else c01.build(cell))
    sp = cell['shape']
    n_in = int(np.prod(sp))
    ok, y = util.call_lib(mod, util.impulses(sp))
    if not ok:
        if cell['mode'] == 'reflect':
            return [res(core.SKIPPED, {'cell': cell}, 'M-JAC', 'forward raises (reflect, short signal)')]
        return [res(VIOLATED, {'cell': cell}, 'M-JAC', 'forward raised %r' % (y,))]
    outs = util.flat_outputs(y)
    A = util.operator_from_impulses(outs, n_in)          # (n_out, n_in)
    n_out = A.shape[0]
    G = util.row_gain(A.T)
    tol = 1e-11 * max(G, 1.0)
    sizes = [int(np.prod(o.shape[1:])) for o in outs]
    for point in ('random', 'origin'):
        case = {'cell': cell, 'check': tag + 'jacobian', 'point': point}
        xb = (util.make_input('randn', [n_out, 1] + sp, seed) if point == 'random'
              else torch.zeros([n_out, 1] + sp, dtype=torch.float64)).requires_grad_(True)
        ok, yb = util.call_lib(mod, xb)
        if not ok:
            out.append(res(VIOLATED, case, 'M-JAC', 'forward raised %r' % (yb,)))
            continue
        eye = torch.eye(n_out, dtype=torch.float64)
        parts = torch.split(eye, sizes, dim=1)
        ob = util.flat_outputs(yb)
        cots = [p.reshape(o.shape) for p, o in zip(parts, ob)]
        ok, g = util.call_lib(torch.autograd.grad, ob, xb, cots, allow_unused=True)
        if not ok:
            out.append(res(VIOLATED, case, 'M-JAC', 'backward raised %r' % (g,), kf_key=kf))
            continue
        if g[0] is None:
            out.append(res(VIOLATED, case, 'M-JAC', 'no gradient delivered to the input'))
            continue
        Jt = util.np64(g[0]).reshape(n_out, n_in)          # row k = J^T e_k = row k of J
        err = np.abs(Jt - A)
        ratio = float(err.max()) / tol
        if err.max() <= tol:
            out.append(res(HELD, case, 'M-JAC', ratio=ratio))
        else:
            k, n = np.unravel_index(int(err.argmax()), err.shape)
            out.append(res(VIOLATED, case, 'M-JAC', 'dY[%d]/dx[%d] = %.6g by autograd, %.6g in the forward operator '
                           '(max err %.3e)' % (k, n, Jt[k, n], A[k, n], err.max()), ratio=ratio, kf_key=kf))
            if kf:
                out.extend(localise_forward(cell, kf, Jt, A, tol))
    # dot-product test with dense cotangents on a batch with C>1
    case = {'cell': cell, 'check': 'dot'}
    x = util.make_input('randn', [2, 3] + sp, seed + 1).requires_grad_(True)
    ok, y = util.call_lib(mod, x)
    if ok:
        ob = util.flat_outputs(y)
        cots = [util.make_input('randn', list(o.shape), seed + 2 + i) for i, o in enumerate(ob)]
        ok, g = util.call_lib(torch.autograd.grad, ob, x, cots, retain_graph=True)
        if not ok:
            out.append(res(VIOLATED, case, 'M-JAC', 'backward raised %r' % (g,), kf_key=kf))
        else:
            gc = np.concatenate([util.np64(c).reshape(6, -1) for c in cots], axis=1)      # (6, n_out)
            want = (gc @ A).reshape(2, 3, *sp)
            okc, d, ratio = util.compare('x.grad vs A^T g', g[0], want, tol * float(np.abs(gc).max()) * 4)
            out.append(res(HELD, case, 'M-JAC', ratio=ratio) if okc else
                       res(VIOLATED, case, 'M-JAC', d, ratio=ratio, kf_key=kf))
            # outputs scaled IN PLACE by the caller before back-propagating: the gradient must scale with them
            case3 = {'cell': cell, 'check': tag + 'outputs modified in place before backward'}
            x3 = x.detach().clone().requires_grad_(True)
            ok3, y3 = util.call_lib(mod, x3)
            if ok3:
                ob3 = util.flat_outputs(y3)
                ok_edit, e3 = util.call_lib(lambda: [o.mul_(0.5) for o in ob3])
                g3 = e3
                if not ok_edit:
                    out.append(res(core.SKIPPED, case3, 'M-JAC', 'torch refuses the in-place edit of the outputs'))
                    ok3 = None
                else:
                    ok3, g3 = util.call_lib(torch.autograd.grad, ob3, x3, cots)
                if ok3 is None:
                    pass
                elif not ok3:
                    out.append(res(VIOLATED, case3, 'M-JAC', 'backward after an in-place edit of the outputs raised %r' % (g3,), kf_key=kf))
                else:
                    okc, d, ratio = util.compare('x.grad vs 0.5 * A^T g', g3[0], 0.5 * want, tol * float(np.abs(gc).max()) * 4)
                    out.append(res(HELD, case3, 'M-JAC', ratio=ratio) if okc else
                               res(VIOLATED, case3, 'M-JAC', d, ratio=ratio, kf_key=kf))
            # a second cotangent, of magnitude 1e-10, pulled back through the same recorded graph
            case2 = {'cell': cell, 'check': tag + 'second pull-back, tiny cotangent'}
            cots2 = [1e-10 * util.make_input('randn', list(o.shape), seed + 50 + i) for i, o in enumerate(ob)]
            ok, g2 = util.call_lib(torch.autograd.grad, ob, x, cots2)
            if not ok:
                out.append(res(VIOLATED, case2, 'M-JAC', 'second backward through the same graph raised %r' % (g2,), kf_key=kf))
            else:
                gc2 = np.concatenate([util.np64(c).reshape(6, -1) for c in cots2], axis=1)
                okc, d, ratio = util.compare('x.grad vs A^T g (|g| ~ 1e-10)', g2[0], (gc2 @ A).reshape(2, 3, *sp),
                                             tol * float(np.abs(gc2).max()) * 4)
                out.append(res(HELD, case2, 'M-JAC', ratio=ratio) if okc else
                           res(VIOLATED, case2, 'M-JAC', d, ratio=ratio, kf_key=kf))
    return out


def localise_forward(cell, kf, Jt, A, tol):
    """inside a known-finding cell: inputs whose column is untouched by the extension must be exact"""
    case = {'cell': cell, 'check': 'localisation'}
    if cell['J'] != 1:
        return []
    if kf == KF_FWD_ODD:
        # only the duplicated last sample per odd axis may be wrong
        sp = cell['shape']
        mask = np.ones(sp, dtype=bool)
        for ax, n in enumerate(sp):
            if n % 2:
                idx = [slice(None)] * len(sp)
                idx[ax] = n - 1
                mask[tuple(idx)] = False
        cols = mask.ravel()
    else:
        ok, mz = util.call_lib(c01.build, dict(cell, mode='zero'))
        if not ok:
            return []
        ok, yz = util.call_lib(mz, util.impulses(cell['shape']))
        if not ok:
            return []
        Az = util.operator_from_impulses(util.flat_outputs(yz), A.shape[1])
        if Az.shape != A.shape:
            return []
        cols = np.abs(Az - A).max(axis=0) <= tol
    if not cols.any():
        return []
    err = np.abs(Jt - A)[:, cols]
    if err.max() <= tol:
        return [res(HELD, case, 'M-JAC.local', '%d of %d input columns untouched by the extension are exact' % (
            int(cols.sum()), len(cols)), ratio=float(err.max()) / tol)]
    return [res(VIOLATED, case, 'M-JAC.local', 'gradient wrong (%.3e) for an input the boundary extension '
                'does not touch' % err.max(), ratio=float(err.max()) / tol)]


def inverse_dir(cell, seed, inv=None, tag=''):
    import torch
    out = []
    kf = kf_for(cell)
    inv = inv if inv is not None else (build_custom(cell) if cell.get('filters') else c10.build(cell))
    J = cell['J']
    lo, det = c10.pyramid_shapes(cell)
    ncoef = int(np.prod(lo)) + sum(int(np.prod(d)) * (1 if cell['dim'] == 1 else 3) for d in det)
    if ncoef > 1500:
        return [res(core.SKIPPED, {'cell': cell}, 'M-JAC', 'pyramid too large for a full operator')]
    yl, yh = c10.make_pyramid(cell, 'impulse', seed, full=True)
    ok, y = util.call_lib(inv, (yl, yh))
    if not ok:
        return [res(VIOLATED, {'cell': cell}, 'M-JAC', 'inverse raised %r' % (y,))]
    S = util.np64(y).reshape(ncoef, -1).T                  # (n_out, ncoef)
    n_out = S.shape[0]
    osh = list(y.shape[2:])
    tol = 1e-11 * max(util.row_gain(S.T), 1.0)
    lo, det = c10.pyramid_shapes(cell)
    band = [] if cell['dim'] == 1 else [3]
    shapes = [lo] + [band + d for d in det]
    sizes = [int(np.prod(s)) for s in shapes]
    offs = np.cumsum([0] + sizes)
    # full Jacobian, all arguments requiring grad, two points
    for point in ('random', 'origin'):
        case = {'cell': cell, 'check': tag + 'jacobian', 'point': point}
        mk = (lambda s, i: util.make_input('randn', [n_out, 1] + s, seed + i)) if point == 'random' else \
            (lambda s, i: torch.zeros([n_out, 1] + s, dtype=torch.float64))
        args = [mk(s, i).requires_grad_(True) for i, s in enumerate(shapes)]
        ok, yb = util.call_lib(inv, (args[0], args[1:]))
        if not ok:
            out.append(res(VIOLATED, case, 'M-JAC', 'inverse raised %r' % (yb,)))
            continue
        cot = torch.eye(n_out, dtype=torch.float64).reshape(n_out, 1, *osh)
        ok, g = util.call_lib(torch.autograd.grad, [yb], args, [cot], allow_unused=True)
        if not ok:
            out.append(res(VIOLATED, case, 'M-JAC', 'backward raised %r' % (g,), kf_key=kf))
            continue
        if any(gi is None for gi in g):
            out.append(res(VIOLATED, case, 'M-JAC', 'no gradient delivered to argument(s) %s' % [
                i for i, gi in enumerate(g) if gi is None]))
            continue
        Jt = np.concatenate([util.np64(gi).reshape(n_out, -1) for gi in g], axis=1)    # (n_out, ncoef) = J
        err = np.abs(Jt - S)
        ratio = float(err.max()) / tol
        if err.max() <= tol:
            out.append(res(HELD, case, 'M-JAC', ratio=ratio))
        else:
            k, n = np.unravel_index(int(err.argmax()), err.shape)
            out.append(res(VIOLATED, case, 'M-JAC', 'dy[%d]/dcoef[%d] = %.6g by autograd, %.6g in the synthesis '
                           'operator (max err %.3e)' % (k, n, Jt[k, n], S[k, n], err.max()), ratio=ratio, kf_key=kf))
            if kf and J == 1 and cell['dim'] == 1:
                L = refs.flen(cell['wave'])
                m = lo[0]
                keep = np.zeros(ncoef, dtype=bool)
                for b in range(2):
                    if m - L > L:
                        keep[b * m + L: (b + 1) * m - L] = True
                if keep.any():
                    e2 = err[:, keep].max()
                    c2 = {'cell': cell, 'check': 'localisation'}
                    out.append(res(HELD, c2, 'M-JAC.local', '%d interior coefficients exact' % int(keep.sum()),
                                   ratio=float(e2) / tol) if e2 <= tol else
                               res(VIOLATED, c2, 'M-JAC.local', 'gradient wrong (%.3e) for an interior coefficient'
                                   % e2, ratio=float(e2) / tol))
    # every requires-grad pattern
    pats = [p for p in itertools.product([False, True], repeat=J + 1) if any(p)]
    if tag:
        pats = pats[-1:]
    for pat in pats:
        case = {'cell': cell, 'check': tag + 'subset', 'requires_grad': list(pat)}
        args = [util.make_input('randn', [2, 2] + s, seed + 20 + i).requires_grad_(bool(pat[i]))
                for i, s in enumerate(shapes)]
        ok, yb = util.call_lib(inv, (args[0], args[1:]))
        if not ok:
            out.append(res(VIOLATED, case, 'M-JAC', 'inverse raised %r' % (yb,)))
            continue
        cot = util.make_input('randn', list(yb.shape), seed + 40)
        want_args = [a for a, p in zip(args, pat) if p]
        ok, g = util.call_lib(torch.autograd.grad, [yb], want_args, [cot], allow_unused=True)
        if not ok:
            out.append(res(VIOLATED, case, 'M-JAC', 'backward raised %r' % (g,), kf_key=kf))
            continue
        gc = util.np64(cot).reshape(4, -1)                   # (4, n_out)
        full = gc @ S                                        # (4, ncoef)
        fail, worst = None, 0.0
        gi = iter(g)
        for i, p in enumerate(pat):
            if not p:
                continue
            got = next(gi)
            name = 'yl' if i == 0 else 'yh[%d]' % (i - 1)
            if got is None:
                fail = fail or ('no gradient delivered to %s although it requires grad' % name, None)
                continue
            want = full[:, offs[i]:offs[i + 1]].reshape(got.shape)
            okc, d, ratio = util.compare('grad of ' + name, got, want, tol * float(np.abs(gc).max()) * 4)
            worst = max(worst, ratio)
            if not okc and fail is None:
                fail = (d, kf)
        if fail is None:
            out.append(res(HELD, case, 'M-JAC.subset', ratio=worst))
        else:
            out.append(res(VIOLATED, case, 'M-JAC.subset', fail[0], ratio=worst, kf_key=fail[1]))
    return out


# ---- Function-level monitor --------------------------------------------------------------------
_FN = {'log': [], 'installed': False}


class _Ctx:
    """stand-in ctx for running a Function's forward body as plain differentiable torch code"""
    needs_input_grad = (True,) * 12

    def save_for_backward(self, *a):
        self.saved_tensors = a


def install_function_monitor():
    if _FN['installed']:
        return
    import torch
    from pytorch_wavelets.dwt import lowlevel as ll

    def wrap(cls, n_diff):
        orig_bwd = cls.backward
        fwd = cls.forward

        def backward(ctx, *grads):
            ret = orig_bwd(ctx, *grads)
            try:
                _judge(cls, fwd, ctx, grads, ret, n_diff)
            except Exception as e:
                _FN['log'].append({'cls': cls.__name__, 'status': 'inconclusive', 'detail': 'monitor error %r' % (e,)})
            return ret
        cls.backward = staticmethod(backward)

    def _judge(cls, fwd, ctx, grads, ret, n_diff):
        mode = ll.mode_to_int(ctx.mode)
        filts = [f.detach() for f in ctx.saved_tensors]
        name = cls.__name__
        g0 = grads[0]
        with torch.enable_grad():
            if name == 'AFB1D':
                filts = [f[:, :, 0, :] for f in filts]
                xs = [torch.zeros(g0.shape[0], g0.shape[1], ctx.shape, dtype=g0.dtype, requires_grad=True)]
            elif name == 'AFB2D':
                xs = [torch.zeros(g0.shape[0], g0.shape[1], *ctx.shape, dtype=g0.dtype, requires_grad=True)]
            elif name == 'SFB1D':
                filts = [f[:, :, 0, :] for f in filts]
                L = filts[0].numel()
                n = g0.shape[-1]
                m = n // 2 if ctx.mode == 'periodization' else (n + L - 2) // 2
                xs = [torch.zeros(g0.shape[0], g0.shape[1], m, dtype=g0.dtype, requires_grad=True) for _ in range(2)]
            else:
                Lr, Lc = filts[0].numel(), filts[2].numel()
                h, w = g0.shape[-2:]
                mh = h // 2 if ctx.mode == 'periodization' else (h + Lc - 2) // 2
                mw = w // 2 if ctx.mode == 'periodization' else (w + Lr - 2) // 2
                xs = [torch.zeros(g0.shape[0], g0.shape[1], mh, mw, dtype=g0.dtype, requires_grad=True),
                      torch.zeros(g0.shape[0], g0.shape[1], 3, mh, mw, dtype=g0.dtype, requires_grad=True)]
            y = fwd(_Ctx(), *xs, *filts, mode)
            ys = list(y) if isinstance(y, tuple) else [y]
            gs = [g if g is not None else torch.zeros_like(o) for g, o in zip(grads, ys)]
            if any(tuple(g.shape) != tuple(o.shape) for g, o in zip(gs, ys)):
                _FN['log'].append({'cls': name, 'status': 'inconclusive', 'detail': 'cotangent shape mismatch'})
                return
            want = torch.autograd.grad(ys, xs, gs, allow_unused=True)
        rec = {'cls': name, 'mode': ctx.mode, 'shape': list(g0.shape), 'L': int(filts[0].numel()),
               'in_sizes': [int(v) for v in xs[0].shape[2:]], 'Ls': [int(f.numel()) for f in filts[::2]]}
        scale = max(float(g.abs().max()) for g in gs) or 1.0
        worst = 0.0
        for i in range(n_diff):
            if not ctx.needs_input_grad[i]:
                continue
            if ret[i] is None:
                rec.update(status='violated', detail='backward returned None for differentiable input %d' % i)
                _FN['log'].append(rec)
                return
            if tuple(ret[i].shape) != tuple(want[i].shape):
                rec.update(status='violated', detail='gradient shape %s, native VJP %s' % (
                    tuple(ret[i].shape), tuple(want[i].shape)))
                _FN['log'].append(rec)
                return
            worst = max(worst, float((ret[i] - want[i]).abs().max()))
        eps = float(torch.finfo(g0.dtype).eps)
        tol = 1e5 * eps * scale * max(1.0, float(sum(f.abs().sum() for f in filts)) ** 2)
        rec['ratio'] = worst / tol
        if worst <= tol:
            rec['status'] = 'held'
        else:
            rec.update(status='violated', detail='hand-written backward differs from the native VJP of the '
                       'forward body by %.3e' % worst)
        _FN['log'].append(rec)

    wrap(ll.AFB1D, 1)
    wrap(ll.AFB2D, 1)
    wrap(ll.SFB1D, 2)
    wrap(ll.SFB2D, 2)
    _FN['installed'] = True


def fn_kf(rec):
    mode = rec.get('mode')
    Ls = rec.get('Ls') or [rec.get('L', 0)]
    if rec['cls'].startswith('AFB'):
        sizes = rec.get('in_sizes', [])
        Lax = Ls[::-1] if len(sizes) == 2 else Ls           # saved order is (row, col) filters
        if mode in EXT and any(2 * (pywt.dwt_coeff_len(n, L, mode) - 1) - n + L > 0 for n, L in zip(sizes, Lax)):
            return KF_FWD_EXT
    elif mode in EXT and max(Ls) > 2:
        return KF_INV_EXT
    return None


def worker_setup(tier, seed):
    install_function_monitor()


def drain_fn(cell):
    out = []
    for rec in _FN['log']:
        case = {'cell': cell, 'check': 'function', 'fn': {k: rec.get(k) for k in ('cls', 'mode', 'shape', 'L', 'in_sizes')}}
        st = rec['status']
        if st == 'held':
            out.append(res(HELD, case, 'M-FN', ratio=rec.get('ratio')))
        elif st == 'violated':
            out.append(res(VIOLATED, case, 'M-FN', rec['detail'], ratio=rec.get('ratio'), kf_key=fn_kf(rec)))
        else:
            out.append(res(INCONCLUSIVE, case, 'M-FN', rec['detail']))
    del _FN['log'][:]
    return out


SAME_LENGTH = {}


def same_length_other(wave):
    """another wavelet with the same filter length (for the in-place buffer reload history)"""
    if not SAME_LENGTH:
        for w in refs.all_wavelets():
            SAME_LENGTH.setdefault(refs.flen(w), []).append(w)
    c = [w for w in SAME_LENGTH[refs.flen(wave)] if w != wave and pywt.Wavelet(w).dec_lo != pywt.Wavelet(wave).dec_lo]
    return c[0] if c else None


def reload_history(cell, seed):
    """history: use the module, overwrite its filter buffers in place with other taps of the same
    length (load_state_dict), use it again - forward and backward must both follow the new taps"""
    import torch
    other = same_length_other(cell['wave'])
    if other is None:
        return []
    cell2 = dict(cell, wave=other)
    build = c01.build if cell['dir'] == 'forward' else c10.build
    mod, donor = build(cell), build(cell2)
    # first use (forward + backward) with the original taps
    try:
        for N, C in ((1, 1), (2, 2), (2, 3)):        # the channel counts the checks below will use
            if cell['dir'] == 'forward':
                x = util.make_input('randn', [N, C] + cell['shape'], seed).requires_grad_(True)
                y = mod(x)
                sum(o.sum() for o in util.flat_outputs(y)).backward()
            else:
                yl, yh = c10.make_pyramid(dict(cell, N=N, C=C), 'randn', seed)
                yl.requires_grad_(True)
                for h in yh:
                    h.requires_grad_(True)
                mod((yl, yh)).sum().backward()
    except Exception:
        return []
    if not util.reload_in_place(mod, donor):
        return [res(INCONCLUSIVE, {'cell': cell2, 'check': 'reload'}, 'M-JAC', 'in-place reload of the filter buffers refused')]
    cell2 = dict(cell2, reloaded_from=cell['wave'])
    if cell['dir'] == 'forward':
        return forward_dir(cell2, seed, mod=mod, tag='reload-')
    return inverse_dir(cell2, seed, inv=mod, tag='reload-')


def suite_cell(cell, prop, tests):
    """the repository's own tests, every backward invocation judged by the Function-level monitor"""
    import os, sys, json, glob, subprocess, tempfile
    d = tempfile.mkdtemp(prefix='suite-', dir=core.private_workdir(prop))
    env = dict(os.environ, VERIF_PLUGIN_FN='1', VERIF_PLUGIN_OUT=os.path.join(d, 'fn.json'), OMP_NUM_THREADS='2',
               PYTHONPATH=core.repo_path() + os.pathsep + core.VERIF)
    try:
        subprocess.run([sys.executable, '-m', 'pytest', '-q', '-p', 'no:cacheprovider', '-p', 'vf.pytest_plugin', '-n', '4',
                        '--timeout=1800'] + tests, cwd=core.repo_path(), env=env, stdout=subprocess.DEVNULL,
                       stderr=subprocess.DEVNULL, timeout=2400)
    except subprocess.TimeoutExpired:
        return [res(INCONCLUSIVE, {'cell': cell}, 'M-FN@suite', 'repository tests under the Function monitor timed out')]
    out, n = [], 0
    for f in glob.glob(os.path.join(d, 'fn.json.*')):
        for rec in json.load(open(f)).get('fn_records', []):
            if rec.get('prop') != prop:
                continue
            n += 1
            case = {'cell': cell, 'repo_test': rec.get('test'), 'fn': {k: rec.get(k) for k in ('cls', 'mode', 'shape', 'L', 'in_sizes', 'shapes')}}
            if rec['status'] == 'held':
                out.append(res(HELD, case, 'M-FN@suite', ratio=rec.get('ratio')))
            elif rec['status'] == 'violated':
                out.append(res(VIOLATED, case, 'M-FN@suite', rec['detail'], ratio=rec.get('ratio'), kf_key=rec.get('kf_key')))
            else:
                out.append(res(INCONCLUSIVE, case, 'M-FN@suite', rec.get('detail')))
    if not n:
        out.append(res(INCONCLUSIVE, {'cell': cell}, 'M-FN@suite', 'no backward invocation observed in the repository tests'))
    return out


def run_cell(cell, seed):
    if cell.get('suite'):
        return suite_cell(cell, PROP, ['tests/test_dwt.py', 'tests/test_dwt1d.py'])
    del _FN['log'][:]
    out = forward_dir(cell, seed) if cell['dir'] == 'forward' else inverse_dir(cell, seed)
    if cell['mode'] in ('zero', 'periodization') and not any(n % 2 for n in cell['shape']) and not cell.get('filters'):
        out.extend(reload_history(cell, seed))
    fn = drain_fn(cell)
    # keep one Function-level verdict per (class, status) per cell to bound the evidence size
    seen = set()
    for r in fn:
        k = (r['case']['fn']['cls'], r['status'], tuple(r['case']['fn']['shape']))
        if k not in seen:
            seen.add(k)
            out.append(r)
    return out


def extra_cov(results, meta):
    modes, waves = {}, set()
    for r in results:
        c = r['case'].get('cell')
        if c:
            waves.add(c['wave'])
            k = '%s/%dd/%s' % (c['dir'], c['dim'], c['mode'])
            modes[k] = modes.get(k, 0) + 1
    return {'wavelets_covered': len(waves), 'by_direction_dim_mode': modes,
            'function_level_backward_invocations_judged': sum(1 for r in results if r['monitor'] == 'M-FN'),
            'grad_subset_patterns_executed': sum(1 for r in results if r['monitor'] == 'M-JAC.subset')}
