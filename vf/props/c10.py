"""C10 - DWT synthesis equals PyWavelets on arbitrary coefficient pyramids (incl. None levels).

Monitor M-REF on DWT1DInverse / DWTInverse: pywt.waverec / waverec2 on the same coefficient arrays.
Synthesis impulse batches (a one-hot pyramid per coefficient position, one batched execution)
give the whole synthesis operator; M-DISP.linear certifies linearity of the executed op stream.
None levels: (i) same result as pywt given the same None entries (both rejecting a pyramid is
agreement), (ii) on the signal extent the same values as the library run with explicit zeros.
"""
import numpy as np
import pywt
from .. import core, refs, util
from ..core import res, HELD, VIOLATED, INCONCLUSIVE
from . import c01

PROP = 'C10'
RULE = ('cells = (dim, wavelet, mode, J, signal shape) as in C01; pyramid shapes derived with '
        'pywt.dwt_coeff_len; per cell a one-hot pyramid per coefficient position (whole synthesis '
        'operator), dense random / dynamic-range pyramids (not in the range of the analysis '
        'operator), and pyramids with a subset of levels None; distinct by (cell, input kind, '
        'None mask); non-trivial when the pyramid is not all-zero'
        '; wave argument forms, user-defined banks and autograd contexts as in C01')
ASSUMPTIONS = ['PyWavelets 1.10 waverec/waverec2 is the specification, including its handling of None',
               'float64; tolerance 1e-11 * (synthesis l1 gain)^(J*dim) * max|c|',
               'signal sizes bounded (1-D <= 130, 2-D sides <= 33), J <= 4']
TIMEOUT = {'quick': 900, 'thorough': 3000}
WORKER_BUDGET = {'quick': 600, 'thorough': 2400}
MIN_HELD = {'quick': 300, 'thorough': 68511}
KF_PER = c01.KF_PER


def cells(tier, seed):
    out = c01.cells(tier, seed + 1000)
    for c in out:
        c.pop('noimp', None)
    return out


def pyramid_shapes(cell):
    """[(lowpass spatial shape), [detail spatial shape per level, finest first]]"""
    Ls = c01.axis_flens(cell)
    cur = list(cell['shape'])
    det = []
    for _ in range(cell['J']):
        cur = [pywt.dwt_coeff_len(n, La, cell['mode']) for n, La in zip(cur, Ls)]
        det.append(list(cur))
    return cur, det


def build(cell, dtype=None):
    import torch
    import pytorch_wavelets as pw
    with util.default_dtype(dtype or torch.float64):
        if cell['dim'] == 1:
            return pw.DWT1DInverse(wave=c01.wave_arg(cell, True), mode=c01.lib_mode(cell))
        return pw.DWTInverse(wave=c01.wave_arg(cell, True), mode=c01.lib_mode(cell))


def make_pyramid(cell, kind, seed, batch=None, full=False):
    """-> (yl, [yh]) torch float64"""
    import torch
    lo, det = pyramid_shapes(cell)
    band = [] if cell['dim'] == 1 else [3]
    if kind == 'impulse':
        sizes = [int(np.prod(lo))] + [int(np.prod(band + d)) for d in det]
        n = sum(sizes)
        if n <= 400 or full:
            eye = torch.eye(n, dtype=torch.float64)
        else:       # long filters blow the pyramid up: a seeded sample of 96 coefficient positions
            pos = torch.randperm(n, generator=util.gen(seed, 'pos', str(cell)))[:96]
            eye = torch.zeros(96, n, dtype=torch.float64)
            eye[torch.arange(96), pos] = 1.0
            n = 96
        parts = torch.split(eye, sizes, dim=1)
        yl = parts[0].reshape(n, 1, *lo)
        yh = [p.reshape(n, 1, *(band + d)) for p, d in zip(parts[1:], det)]
        return yl, yh
    N, C = cell['N'], cell['C']
    yl = util.make_input(kind, [N, C] + lo, seed)
    yh = [util.make_input(kind, [N, C] + band + d, seed + 7 * (j + 1)) for j, d in enumerate(det)]
    return yl, yh


def reference(cell, yl, yh):
    hn = [None if h is None else util.np64(h) for h in yh]
    if cell['dim'] == 1:
        return refs.waverec1(util.np64(yl), hn, cell['wave'], cell['mode'])
    return refs.waverec2(util.np64(yl), hn, cell['wave'], cell.get('wave_row') or cell['wave'], cell['mode'])


def in_d7(cell):
    return any(c01.in_d7(c01.level_lengths(n, La, cell['mode'], cell['J']), La, cell['mode'])
               for n, La in zip(cell['shape'], c01.axis_flens(cell)))


KF_NONE = 'none-level-periodization-lowpass-not-cropped'


def none_mismatch(cell, mask):
    """periodization: is there a None level at which the running lowpass is one sample larger than
    that level's detail size (the library then pads the None level to the lowpass size instead of
    cropping the lowpass, which changes the period)?"""
    if cell['mode'] != 'periodization' or not mask:
        return False
    lo, det = pyramid_shapes(cell)
    for ax in range(cell['dim']):
        s = lo[ax]
        for j in range(cell['J'] - 1, -1, -1):
            c = det[j][ax]
            if mask[j]:
                if s != c:
                    return True
            else:
                s = c
            s = 2 * s
    return False


def tol_for(cell, yl, yh):
    G = c01.total_gain(cell, True)
    m = max([float(yl.abs().max())] + [float(h.abs().max()) for h in yh if h is not None and h.numel()])
    return 1e-11 * G * max(m, 1e-300) * 4


def judge(cell, kind, mask, mod, yl, yh):
    case = {'cell': cell, 'input': kind, 'none_mask': mask}
    kf = KF_PER if in_d7(cell) else None
    yh_in = [None if (mask and mask[j]) else h for j, h in enumerate(yh)]
    try:
        ref = reference(cell, yl, yh_in)
        ref_ok = True
    except Exception as e:
        ref, ref_ok = e, False
    ok, y = util.call_lib_eval(mod, (yl, yh_in)) if kind not in ('impulse', 'randn') else util.call_lib(mod, (yl, yh_in))   # one class in eval() mode
    out = []
    tol = tol_for(cell, yl, yh)
    if ref_ok and not ok:
        out.append(res(VIOLATED, case, 'M-REF', 'library raised %r where pywt returns' % (y,), kf_key=kf))
    elif not ref_ok and not ok:
        if mask and any(mask):
            out.append(res(HELD, case, 'M-REF', 'both pywt and the library reject this pyramid', ratio=0.0,
                           raised=True))
        else:
            out.append(res(INCONCLUSIVE, case, 'M-REF', 'reference raised %r' % (ref,)))
    elif ref_ok and ok:
        okc, detail, ratio = util.compare('y', y, ref, tol)
        out.append(res(HELD, case, 'M-REF', ratio=ratio) if okc else
                   res(VIOLATED, case, 'M-REF', detail, ratio=ratio, kf_key=kf))
    else:
        out.append(res(INCONCLUSIVE, case, 'M-REF', 'reference raised %r, library returned' % (ref,)))
    if ok and mask and any(mask):
        # (ii) None == explicit zeros on the signal extent
        import torch
        ok0, y0 = util.call_lib(mod, (yl, [torch.zeros_like(h) if mask[j] else h for j, h in enumerate(yh)]))
        if ok0:
            ext = [min(a, b) for a, b in zip(y.shape[2:], y0.shape[2:])]
            if any(a < b for a, b in zip(y.shape[2:], y0.shape[2:])):
                out.append(res(VIOLATED, case, 'M-NONE', 'result with None levels %s is smaller than the '
                               'explicit-zeros result %s' % (tuple(y.shape), tuple(y0.shape)), kf_key=kf))
            else:
                sl = (slice(None), slice(None)) + tuple(slice(0, e) for e in ext)
                okc, detail, ratio = util.compare('y[None] vs y[zeros]', y[sl], util.np64(y0[sl]), tol)
                out.append(res(HELD, case, 'M-NONE', ratio=ratio) if okc else
                           res(VIOLATED, case, 'M-NONE', detail, ratio=ratio,
                               kf_key=KF_NONE if none_mismatch(cell, mask) else kf))
    return out


def run_cell(cell, seed):
    import torch
    out = []
    mod = build(cell)
    rnd = core.rng_for(seed, PROP, 'kinds', str(cell))
    kinds = ([] if cell.get('noimp') else ['impulse']) + \
        ['randn', rnd.choice(['dynrange', 'const', 'alt', 'outlier', 'ramp'])]
    for kind in kinds:
        yl, yh = make_pyramid(cell, kind, seed)
        out.extend(judge(cell, kind, None, mod, yl, yh))
    # history: in-place reload of the filter buffers with other taps of the same length
    other = c01.same_length_other(cell['wave'])
    if other is not None and not cell.get('wave_row') and rnd.random() < 0.34:
        cell2 = dict(cell, wave=other, reloaded_from=cell['wave'])
        mod2 = build(cell)
        pyrs = {k: make_pyramid(cell, k, seed + 41) for k in ('impulse', 'randn')}
        if all(util.call_lib(mod2, p)[0] for p in pyrs.values()):
            if util.reload_in_place(mod2, build(cell2)):
                for k, (yl, yh) in pyrs.items():
                    out.extend(judge(cell2, 'reload-' + k, None, mod2, yl, yh))
    # history: the public `mode` attribute of an existing module is re-assigned (built in another mode, then
    # switched to this cell's mode): the module must synthesise in the mode it now reports
    if not cell.get('custom') and not cell.get('noimp') and rnd.random() < 0.25:
        other_mode = rnd.choice([m for m in refs.MODES if m != cell['mode']])
        ok3, mod3 = util.call_lib(build, dict(cell, mode=other_mode, spelling=None))
        if ok3:
            mod3.mode = c01.lib_mode(cell)
            yl, yh = make_pyramid(cell, 'randn', seed + 61)
            for r in judge(cell, 'randn', None, mod3, yl, yh):
                r['case'] = dict(r['case'], history='mode attribute re-assigned from %r' % other_mode)
                out.append(r)
    # None subsets
    J = cell['J']
    masks = set()
    for _ in range(2 if J > 1 else 1):
        m = tuple(rnd.random() < 0.5 for _ in range(J))
        if not any(m):
            m = tuple(j == rnd.randrange(J) for j in range(J))
        masks.add(m)
    yl, yh = make_pyramid(cell, 'randn', seed + 3)
    for m in sorted(masks):
        out.extend(judge(cell, 'randn', list(m), mod, yl, yh))
    # certificate: whole pyramid tainted
    yl, yh = make_pyramid(cell, 'randn', seed + 5)
    zl, zh = torch.zeros_like(yl), [torch.zeros_like(h) for h in yh]
    case = {'cell': cell, 'input': 'certificate'}
    try:
        st, detail, info = util.linear_certificate(lambda *t: mod((t[0], list(t[1:]))), [yl] + yh, [zl] + zh)
        if st == 'certified':
            out.append(res(HELD, case, 'M-DISP.linear', info))
        else:
            out.append(res(INCONCLUSIVE, case, 'M-DISP.linear', '%s: %s' % (st, detail)))
    except Exception as e:
        out.append(res(INCONCLUSIVE, case, 'M-DISP.linear', 'raised %r' % (e,)))
    return out


def nontrivial(r):
    return r['monitor'] in ('M-REF', 'M-NONE') and not r.get('raised')


def extra_cov(results, meta):
    d = c01.extra_cov(results, meta)
    d['none_mask_cases'] = sum(1 for r in results if r['case'].get('none_mask'))
    d['both_reject'] = sum(1 for r in results if r.get('raised'))
    d.pop('allowed_reflect_raises_observed', None)
    return d
