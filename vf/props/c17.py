"""C17 - orthogonal wavelets with periodization give an orthogonal transform.

Operator-algebra monitor on executions of the real modules: A is extracted from DWT(1D)Forward
executions on impulses, S from DWT(1D)Inverse executions on one-hot pyramids; then
A^T A = I, A A^T = I, S = A^T (M-ORTH), energy and inner products are preserved on dense /
dynamic-range inputs (M-ENERGY), and back-propagating a cotangent through the forward module
equals applying the inverse module to that cotangent (M-ADJ).
Tolerance c * (J*dim*delta_w + eps) * gain^2 with delta_w the orthonormality defect of pywt's own
taps for that wavelet (sym* are orthonormal to ~1e-11 only).
"""
import numpy as np
import pywt
from .. import core, refs, util
from ..core import res, HELD, VIOLATED, INCONCLUSIVE
from . import c01, c10

PROP = 'C17'
RULE = ('cells = (orthogonal wavelet from all 75 of db*, sym*, coif*, haar; dim; J in 1..3; N = m*2^J with '
        'every level even and >= the filter length, m in {L/2, L/2+1, L/2+3}; 2-D for L<=12, non-square); per '
        'cell the full operators A and S from impulse executions, dense inputs for energy / inner products, '
        'dense cotangents for backward == inverse; distinct by (cell, check)'
        '; the analysis / synthesis operators of converted module pairs (float32-built .double(), float64-built .float()) against the native float64 ones at float32 precision; reload histories; backward of the inverse')
ASSUMPTIONS = ['float64', 'tolerance scaled by the orthonormality defect of the PyWavelets taps themselves']
TIMEOUT = {'quick': 900, 'thorough': 3000}
WORKER_BUDGET = {'quick': 600, 'thorough': 2400}
MIN_HELD = {'quick': 300, 'thorough': 8696}


def ortho_wavelets():
    return [w for w in refs.all_wavelets() if w == 'haar' or w.startswith(('db', 'sym', 'coif'))]


def defect(w):
    wv = pywt.Wavelet(w)
    h0, h1 = np.array(wv.dec_lo), np.array(wv.dec_hi)
    L = len(h0)
    d = 0.0
    for a, b, same in ((h0, h0, True), (h1, h1, True), (h0, h1, False)):
        c = np.correlate(a, b, 'full')
        lags = np.arange(len(c)) - (L - 1)
        ev = c[lags % 2 == 0] - ((lags[lags % 2 == 0] == 0) if same else 0)
        d = max(d, float(np.abs(ev).max()))
    # synthesis must be the reverse of analysis for an orthogonal wavelet
    d = max(d, float(np.abs(np.array(wv.rec_lo) - h0[::-1]).max()), float(np.abs(np.array(wv.rec_hi) - h1[::-1]).max()))
    return d


def cells(tier, seed):
    rnd = core.rng_for(seed, PROP, tier)
    out = []
    for w in ortho_wavelets():
        L = refs.flen(w)
        for J in ([rnd.choice([1, 2, 3])] if tier == 'quick' else [1, 2, 3, 4]):
            ms = [L // 2, L // 2 + 1, L // 2 + 3] if tier == 'quick' else [L // 2 + i for i in range(12)]
            for m in (rnd.sample(ms, 2) if tier == 'quick' else ms):
                out.append({'dim': 1, 'wave': w, 'mode': rnd.choice(['periodization', 'periodization', 'per']), 'J': J,
                            'shape': [m * 2 ** J], 'N': 2, 'C': 2})
        if L <= (12 if tier == 'quick' else 16):
            for _ in range(1 if tier == 'quick' else 40):
                J = rnd.choice([1, 2])
                m1, m2 = L // 2 + rnd.choice([0, 1]), L // 2 + rnd.choice([2, 3])
                out.append({'dim': 2, 'wave': w, 'mode': 'periodization', 'J': J, 'shape': [m1 * 2 ** J, m2 * 2 ** J],
                            'N': 1, 'C': 2})
        elif L <= 34 and (tier == 'thorough' or rnd.random() < 0.5):
            # longer filters in 2-D as well: one level on the smallest admissible image (L x (L+2) samples,
            # operator of at most 34*36 = 1224 columns)
            for _ in range(1 if tier == 'quick' else 4):
                out.append({'dim': 2, 'wave': w, 'mode': 'periodization', 'J': 1, 'shape': [L, L + 2], 'N': 1, 'C': 2})
    rnd.shuffle(out)
    return out


def run_cell(cell, seed):
    import torch
    out = []
    w, J, sp, dim = cell['wave'], cell['J'], cell['shape'], cell['dim']
    L = refs.flen(w)
    # precondition of the property
    for n in sp:
        for j in range(J):
            assert n % 2 == 0 and n >= L, 'generator produced a cell outside the quantifier'
            n //= 2
    n_in = int(np.prod(sp))
    if n_in > 1300:
        return [res(core.SKIPPED, {'cell': cell}, 'M-ORTH', 'operator too large')]
    fwd, inv = c01.build(cell), c10.build(cell)
    dw = defect(w)
    ok, y = util.call_lib(fwd, util.impulses(sp))
    if not ok:
        return [res(VIOLATED, {'cell': cell}, 'M-ORTH', 'forward raised %r' % (y,))]
    A = util.operator_from_impulses(util.flat_outputs(y), n_in)
    if A.shape[0] != n_in:
        return [res(VIOLATED, {'cell': cell, 'check': 'square'}, 'M-ORTH',
                    'periodized transform of %d samples has %d coefficients' % (n_in, A.shape[0]))]
    G = util.row_gain(A)
    tol = 50 * (J * dim * dw + util.EPS64) * max(G, 1.0) ** 2
    eye = np.eye(n_in)
    for name, M in (('A^T A = I', A.T @ A - eye), ('A A^T = I', A @ A.T - eye)):
        e = float(np.abs(M).max())
        case = {'cell': cell, 'check': name}
        out.append(res(HELD, case, 'M-ORTH', ratio=e / tol) if e <= tol else
                   res(VIOLATED, case, 'M-ORTH', '%s fails by %.3e (tol %.3e, wavelet defect %.1e)' % (name, e, tol, dw),
                       ratio=e / tol))
    yl, yh = c10.make_pyramid(cell, 'impulse', seed, full=True)
    ok, r = util.call_lib(inv, (yl, yh))
    case = {'cell': cell, 'check': 'S = A^T'}
    if not ok:
        out.append(res(VIOLATED, case, 'M-ORTH', 'inverse raised %r' % (r,)))
    else:
        S = util.np64(r).reshape(n_in, -1).T
        if S.shape != A.T.shape:
            out.append(res(VIOLATED, case, 'M-ORTH', 'synthesis operator has shape %s' % (S.shape,)))
        else:
            e = float(np.abs(S - A.T).max())
            out.append(res(HELD, case, 'M-ORTH', ratio=e / tol) if e <= tol else
                       res(VIOLATED, case, 'M-ORTH', 'S differs from A^T by %.3e' % e, ratio=e / tol))
    # energy / inner products on dense inputs
    rnd = core.rng_for(seed, PROP, 'k', str(cell))
    for kind in ['randn', rnd.choice(['dynrange', 'outlier', 'ramp', 'alt'])]:
        case = {'cell': cell, 'check': 'energy', 'input': kind}
        x = util.make_input(kind, [cell['N'], cell['C']] + sp, seed)
        z = util.make_input('randn', [cell['N'], cell['C']] + sp, seed + 1)
        ok, px = util.call_lib(fwd, x)
        ok2, pz = util.call_lib(fwd, z)
        if not (ok and ok2):
            out.append(res(VIOLATED, case, 'M-ENERGY', 'forward raised'))
            continue
        fx = np.concatenate([util.np64(t).ravel() for t in util.flat_outputs(px)])
        fz = np.concatenate([util.np64(t).ravel() for t in util.flat_outputs(pz)])
        xn, zn = util.np64(x).ravel(), util.np64(z).ravel()
        e1 = abs(float(fx @ fx) - float(xn @ xn))
        e2 = abs(float(fx @ fz) - float(xn @ zn))
        sc = float(np.linalg.norm(xn)) * max(float(np.linalg.norm(xn)), float(np.linalg.norm(zn)))
        t = tol * max(sc, 1e-300) * 4
        ratio = max(e1, e2) / t
        out.append(res(HELD, case, 'M-ENERGY', ratio=ratio) if max(e1, e2) <= t else
                   res(VIOLATED, case, 'M-ENERGY', 'energy off by %.3e, inner product off by %.3e (tol %.3e)' % (e1, e2, t),
                       ratio=ratio))
    # converted modules (built in float32 + .double(); built in float64 + .float()): still an orthogonal pair,
    # to float32 tap / arithmetic precision
    import torch
    for bdt, conv, dt, eps in ((torch.float32, 'double', torch.float64, 2e-6), (torch.float64, 'float', torch.float32, 1e-4)):
        case = {'cell': cell, 'check': 'converted', 'modules': 'built %s, .%s()' % (str(bdt).replace('torch.', ''), conv)}
        try:
            f3, i3 = getattr(c01.build(cell, bdt), conv)(), getattr(c10.build(cell, bdt), conv)()
        except Exception as e_:
            out.append(res(VIOLATED, case, 'M-ORTH', 'conversion raised %r' % (e_,)))
            continue
        ok, y3 = util.call_lib(f3, util.impulses(sp, dt))
        yl3, yh3 = c10.make_pyramid(cell, 'impulse', seed, full=True)
        ok2, r3 = util.call_lib(i3, (yl3.to(dt), [h.to(dt) for h in yh3]))
        if not (ok and ok2):
            out.append(res(VIOLATED, case, 'M-ORTH', 'converted module raised %r' % ((y3 if not ok else r3),)))
            continue
        A3 = util.operator_from_impulses(util.flat_outputs(y3), n_in)
        S3 = util.np64(r3).reshape(n_in, -1).T
        if A3.shape != A.shape or S3.shape != A.T.shape:
            out.append(res(VIOLATED, case, 'M-ORTH', 'converted operators have shapes %s / %s' % (A3.shape, S3.shape)))
            continue
        t3 = tol + eps * max(G, 1.0) ** 2 * J * dim
        e = max(float(np.abs(A3 - A).max()), float(np.abs(S3 - A.T).max()))
        out.append(res(HELD, case, 'M-ORTH', ratio=e / t3) if e <= t3 else
                   res(VIOLATED, case, 'M-ORTH', 'converted analysis / synthesis operators differ from the native float64 ones by %.3e '
                                                 '(tol %.3e)' % (e, t3), ratio=e / t3))
    # history: both modules reloaded in place with another orthogonal wavelet of the same length
    other = [w2 for w2 in ortho_wavelets() if w2 != w and refs.flen(w2) == L and pywt.Wavelet(w2).dec_lo != pywt.Wavelet(w).dec_lo]
    if other:
        cell2 = dict(cell, wave=other[0], reloaded_from=w)
        f2, i2 = c01.build(cell), c10.build(cell)
        x = util.make_input('randn', [cell['N'], cell['C']] + sp, seed + 11)
        ok, p = util.call_lib(f2, x)
        if ok and util.call_lib(i2, p)[0]:
            util.reload_in_place(f2, c01.build(cell2))
            util.reload_in_place(i2, c10.build(cell2))
            case = {'cell': cell2, 'check': 'reload: energy and inverse'}
            ok, p = util.call_lib(f2, x)
            ok2, r = util.call_lib(i2, p) if ok else (False, None)
            if not (ok and ok2):
                out.append(res(VIOLATED, case, 'M-ENERGY', 'raised after an in-place filter reload'))
            else:
                fx = np.concatenate([util.np64(t).ravel() for t in util.flat_outputs(p)])
                xn = util.np64(x).ravel()
                tol2 = 50 * (J * dim * defect(other[0]) + util.EPS64) * max(G, 1.0) ** 2 * 4
                e1 = abs(float(fx @ fx) - float(xn @ xn)) / max(float(xn @ xn), 1e-300)
                e2 = float(np.abs(util.np64(r).ravel() - xn).max()) / max(float(np.abs(xn).max()), 1e-300)
                ratio = max(e1, e2) / tol2
                out.append(res(HELD, case, 'M-ENERGY', ratio=ratio) if ratio <= 1 else
                           res(VIOLATED, case, 'M-ENERGY', 'after reload: relative energy error %.3e, reconstruction error %.3e' % (e1, e2),
                               ratio=ratio))
    # back-propagating a cotangent == inverse transform of the cotangent
    case = {'cell': cell, 'check': 'backward == inverse'}
    x = util.make_input('randn', [cell['N'], cell['C']] + sp, seed + 2).requires_grad_(True)
    ok, p = util.call_lib(fwd, x)
    if ok:
        outs = util.flat_outputs(p)
        cots = [util.make_input('randn', list(o.shape), seed + 3 + i) for i, o in enumerate(outs)]
        ok, g = util.call_lib(torch.autograd.grad, outs, x, cots)
        ok2, ri = util.call_lib(inv, (cots[0], cots[1:]))
        if not ok or not ok2:
            out.append(res(VIOLATED, case, 'M-ADJ', 'backward or inverse raised %r' % ((g if not ok else ri),)))
        else:
            m = max(float(c.abs().max()) for c in cots)
            okc, d, ratio = util.compare('x.grad vs inverse(cotangent)', g[0], util.np64(ri), tol * m * 4)
            out.append(res(HELD, case, 'M-ADJ', ratio=ratio, bit_identical=bool(torch.equal(g[0], ri))) if okc else
                       res(VIOLATED, case, 'M-ADJ', d, ratio=ratio))
    # ... and the other way round: back-propagating through the inverse equals applying the forward
    # transform to the cotangent, whichever subset of (yl, yh_1..yh_J) requires grad
    ok, p0 = util.call_lib(fwd, util.make_input('randn', [cell['N'], cell['C']] + sp, seed + 9))
    if ok:
        shapes = [list(t.shape) for t in util.flat_outputs(p0)]
        pats = [[True] + [False] * J, [False] * J + [True], [True] * (J + 1)]
        for pat in pats:
            case = {'cell': cell, 'check': 'backward of inverse == forward', 'requires_grad': pat}
            args = [util.make_input('randn', sh, seed + 70 + i).requires_grad_(bool(pat[i])) for i, sh in enumerate(shapes)]
            ok, r = util.call_lib(inv, (args[0], args[1:]))
            if not ok:
                out.append(res(VIOLATED, case, 'M-ADJ', 'inverse raised %r' % (r,)))
                continue
            cot = util.make_input('randn', list(r.shape), seed + 90)
            want_args = [a for a, q in zip(args, pat) if q]
            ok, g = util.call_lib(torch.autograd.grad, [r], want_args, [cot], allow_unused=True)
            ok2, pc = util.call_lib(fwd, cot)
            if not ok or not ok2:
                out.append(res(VIOLATED, case, 'M-ADJ', 'backward of the inverse (or forward of the cotangent) raised %r' % ((g if not ok else pc),)))
                continue
            exp = util.flat_outputs(pc)
            gi = iter(g)
            fail, worst = None, 0.0
            for i, q in enumerate(pat):
                if not q:
                    continue
                got = next(gi)
                if got is None:
                    fail = fail or 'no gradient delivered to %s' % ('yl' if i == 0 else 'yh[%d]' % (i - 1))
                    continue
                okc, d, ratio = util.compare('grad %d vs forward(cotangent)' % i, got, util.np64(exp[i]), tol * float(cot.abs().max()) * 4)
                worst = max(worst, ratio)
                if not okc and fail is None:
                    fail = d
            out.append(res(HELD, case, 'M-ADJ', ratio=worst) if fail is None else res(VIOLATED, case, 'M-ADJ', fail, ratio=worst))
    return out


def extra_cov(results, meta):
    w = set(r['case']['cell']['wave'] for r in results if r['case'].get('cell'))
    return {'orthogonal_wavelets_covered': len(w), 'orthogonal_wavelets_total': len(ortho_wavelets()),
            'backward_bit_identical_to_inverse': sum(1 for r in results if r.get('bit_identical'))}
