"""Pre-emption and fault injection without source edits, via sys.monitoring LINE events restricted to
the code objects of pytorch_wavelets/*.

  * yield injection: with a seeded per-thread probability the callback calls time.sleep(0), handing
    the GIL to another thread between two statements of the library (interleaving stress);
  * fault injection: when the calling thread has armed a failpoint, the callback raises
    InjectedFault at the n-th library line executed in that call (source-free failpoint).
"""
import sys, time, threading, random, types

TOOL = 3
_state = {'on': False, 'yields': 0, 'faults': 0, 'lines': 0, 'codes': 0}
_tl = threading.local()


class InjectedFault(Exception):
    pass


def _code_objects():
    seen, out = set(), []

    def add(co):
        if id(co) in seen:
            return
        seen.add(id(co))
        out.append(co)
        for c in co.co_consts:
            if isinstance(c, types.CodeType):
                add(c)
    for name, m in list(sys.modules.items()):
        if not name.startswith('pytorch_wavelets') or m is None:
            continue
        for v in list(vars(m).values()):
            f = getattr(v, '__wrapped__', v)
            if isinstance(f, types.FunctionType) and (f.__module__ or '').startswith('pytorch_wavelets'):
                add(f.__code__)
            if isinstance(v, type) and (v.__module__ or '').startswith('pytorch_wavelets'):
                for a in list(vars(v).values()):
                    a = getattr(a, '__func__', a)
                    a = getattr(a, '__wrapped__', a)
                    if isinstance(a, types.FunctionType):
                        add(a.__code__)
    return [c for c in out if 'pytorch_wavelets' in (c.co_filename or '')]


def thread_init(seed, p_yield):
    _tl.rng = random.Random(seed)
    _tl.p = p_yield
    _tl.fault_at = None
    _tl.count = 0


def arm_fault(n):
    """raise InjectedFault at the n-th library line executed by this thread from now on"""
    _tl.fault_at = n
    _tl.count = 0


def disarm():
    _tl.fault_at = None


def _cb(code, line):
    rng = getattr(_tl, 'rng', None)
    if rng is None:
        return None
    _state['lines'] += 1
    fa = _tl.fault_at
    if fa is not None:
        _tl.count += 1
        if _tl.count >= fa:
            _tl.fault_at = None
            _state['faults'] += 1
            raise InjectedFault('injected at %s:%d' % (code.co_filename.rsplit('/', 1)[-1], line))
    if rng.random() < _tl.p:
        _state['yields'] += 1
        time.sleep(0)
    return None


def enable():
    if _state['on']:
        return
    mon = sys.monitoring
    try:
        mon.use_tool_id(TOOL, 'verif-inject')
    except ValueError:
        pass
    mon.register_callback(TOOL, mon.events.LINE, _cb)
    codes = _code_objects()
    for co in codes:
        mon.set_local_events(TOOL, co, mon.events.LINE)
    _state['codes'] = len(codes)
    _state['on'] = True


def stats():
    return dict(_state)
