"""Reference models: PyWavelets and the NumPy `dtcwt` package, adapted to the library's layouts.

Nothing in this file imports pytorch_wavelets: the references share no code with the monitored
implementation.
"""
import warnings, logging
import numpy as np
import pywt

logging.getLogger().setLevel(logging.ERROR)
MODES = ['zero', 'symmetric', 'reflect', 'periodic', 'periodization']
BIORTS = ['antonini', 'legall', 'near_sym_a', 'near_sym_b']
QSHIFTS = ['qshift_06', 'qshift_a', 'qshift_b', 'qshift_c', 'qshift_d']


def all_wavelets():
    return pywt.wavelist(kind='discrete')


def wavelet(spec):
    """spec: a pywt name, or ('fb', dec_lo, dec_hi, rec_lo, rec_hi)."""
    if isinstance(spec, str):
        return pywt.Wavelet(spec)
    if isinstance(spec, pywt.Wavelet):
        return spec
    return pywt.Wavelet('custom', filter_bank=[list(f) for f in spec])


def flen(spec):
    return wavelet(spec).dec_len


def l1gain(spec, synthesis=False):
    w = wavelet(spec)
    fs = (w.rec_lo, w.rec_hi) if synthesis else (w.dec_lo, w.dec_hi)
    return max(float(np.sum(np.abs(f))) for f in fs)


def wavedec1(x, w, mode, J):
    """x (N,C,L) -> yl (N,C,l), [yh_1 .. yh_J] finest first"""
    with warnings.catch_warnings():
        warnings.simplefilter('ignore')
        c = pywt.wavedec(x, wavelet(w), mode=mode, level=J, axis=-1)
    return c[0], c[1:][::-1]


def waverec1(yl, yhs, w, mode):
    with warnings.catch_warnings():
        warnings.simplefilter('ignore')
        return pywt.waverec([yl] + list(yhs[::-1]), wavelet(w), mode=mode, axis=-1)


def wavedec2(x, wcol, wrow, mode, J):
    """x (N,C,H,W) -> yl, [yh_j (N,C,3,h,w)] finest first; wcol acts on axis -2, wrow on axis -1"""
    with warnings.catch_warnings():
        warnings.simplefilter('ignore')
        c = pywt.wavedec2(x, (wavelet(wcol), wavelet(wrow)), mode=mode, level=J, axes=(-2, -1))
    yh = [np.stack(t, axis=2) for t in c[1:]][::-1]
    return c[0], yh


def waverec2(yl, yhs, wcol, wrow, mode):
    """yhs finest first; entries may be None (pywt semantics: zeros)"""
    coeffs = [yl]
    for h in yhs[::-1]:
        if h is None:
            coeffs.append((None, None, None))
        else:
            coeffs.append((h[:, :, 0], h[:, :, 1], h[:, :, 2]))
    with warnings.catch_warnings():
        warnings.simplefilter('ignore')
        return pywt.waverec2(coeffs, (wavelet(wcol), wavelet(wrow)), mode=mode, axes=(-2, -1))


def swt2(x, w, J):
    """x (N,C,H,W) -> [ (N,C,4,H,W) for level 1..J ] (A,H,V,D)"""
    with warnings.catch_warnings():
        warnings.simplefilter('ignore')
        c = pywt.swt2(x, wavelet(w), level=J, axes=(-2, -1))
    out = []
    for cA, (cH, cV, cD) in c[::-1]:
        out.append(np.stack([cA, cH, cV, cD], axis=2))
    return out


# ----------------------------------------------------------------------------------------------
# dual-tree reference

_T2D = {}


def _t2d(biort, qshift):
    import dtcwt
    k = (biort, qshift)
    if k not in _T2D:
        _T2D[k] = dtcwt.Transform2d(biort=biort, qshift=qshift)
    return _T2D[k]


def dtcwt_fwd(x, biort, qshift, J):
    """x (N,C,H,W) float64 -> yl (N,C,h,w), yh [complex (N,C,6,h,w)], scales [ (N,C,h,w) ]"""
    t = _t2d(biort, qshift)
    N, C = x.shape[:2]
    yl, yh, sc = None, None, None
    for n in range(N):
        for c in range(C):
            with warnings.catch_warnings():
                warnings.simplefilter('ignore')
                p = t.forward(x[n, c], nlevels=J, include_scale=True)
            if yl is None:
                yl = np.zeros((N, C) + p.lowpass.shape)
                yh = [np.zeros((N, C, 6) + h.shape[:2], dtype=complex) for h in p.highpasses]
                sc = [np.zeros((N, C) + s.shape) for s in p.scales]
            yl[n, c] = p.lowpass
            for j, h in enumerate(p.highpasses):
                yh[j][n, c] = np.transpose(h, (2, 0, 1))
            for j, s in enumerate(p.scales):
                sc[j][n, c] = s
    return yl, yh, sc


def dtcwt_inv(yl, yh, biort, qshift):
    """yl (N,C,h,w), yh [complex (N,C,6,h,w)] -> (N,C,H,W)"""
    import dtcwt
    t = _t2d(biort, qshift)
    N, C = yl.shape[:2]
    out = None
    for n in range(N):
        for c in range(C):
            p = dtcwt.Pyramid(yl[n, c], tuple(np.transpose(h[n, c], (1, 2, 0)) for h in yh))
            with warnings.catch_warnings():
                warnings.simplefilter('ignore')
                y = t.inverse(p)
            if out is None:
                out = np.zeros((N, C) + y.shape)
            out[n, c] = y
    return out


def dtcwt_gain(biort, qshift, J, synthesis=False):
    """upper bound on the largest absolute row sum of the J-level dual-tree operator"""
    import dtcwt.coeffs as dc
    b = dc.biort(biort)
    q = dc.qshift(qshift)
    if synthesis:
        g1 = max(np.abs(b[1]).sum(), np.abs(b[3]).sum())
        g2 = max(np.abs(q[i]).sum() for i in (2, 3, 6, 7))
    else:
        g1 = max(np.abs(b[0]).sum(), np.abs(b[2]).sum())
        g2 = max(np.abs(q[i]).sum() for i in (0, 1, 4, 5))
    return float(g1 ** 2 * (g2 ** 2) ** max(0, J - 1)) * 2.0
