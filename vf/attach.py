"""Installs the context-free monitors on the imported repository (no source edits).

  M-ARG   every tensor / list argument of a public entry point is bit-identical, has the same
          `_version` counter, the same length and the same element identities after the call
          (also when the call raises);
  M-INV   every registered buffer / parameter of the module is bit-identical after the call;
  M-SHAPE every floating tensor returned has the dtype of the floating input;
  M-DISP  a DispatchMonitor is active around the call: write-set + precision checkers;
  M-CACHE the DTCWT coefficient cache is an instrumented dict, cached arrays are read-only.

Violations are appended to `LOG` (thread-safe); workloads drain it.  `COUNTS` says how often each
monitor was evaluated: zero evaluations => the run is inconclusive, never "held".
"""
import hashlib, threading, functools, os
import numpy as np
import torch

from .dispatchmon import DispatchMonitor

_LOCK = threading.Lock()
LOG = []            # generic violation records
COUNTS = {}         # monitor -> evaluations
CENSUS = {}         # op name -> count (all monitored calls)
MUTATING = {}       # mutating op name -> count
CALLS = []          # optional call log for histories (only when RECORD_CALLS)
INSTALLED = False
ENABLE_DISPATCH = True


def _count(name, n=1):
    with _LOCK:
        COUNTS[name] = COUNTS.get(name, 0) + n


def _log(monitor, where, detail):
    with _LOCK:
        LOG.append({'monitor': monitor, 'where': where, 'detail': detail,
                    'thread': threading.current_thread().name})


def drain():
    with _LOCK:
        out = list(LOG)
        del LOG[:]
    return out


def tdigest(t):
    """bytes digest of the *logical* contents + layout facts of a tensor"""
    with torch.no_grad():
        a = t.detach()
        try:
            raw = a.contiguous().cpu().numpy().tobytes()
        except Exception:
            raw = repr(a.tolist()).encode()
    return (hashlib.blake2b(raw, digest_size=12).hexdigest(), tuple(t.shape), str(t.dtype),
            tuple(t.stride()), (-1 if t.is_inference() else t._version), t.data_ptr(), bool(t.requires_grad))   # inference tensors carry no version counter


def snapshot_args(obj, path='arg'):
    """-> list of (path, kind, facts, ref) for every tensor / container reachable from obj"""
    out = []
    if isinstance(obj, torch.Tensor):
        out.append((path, 'tensor', tdigest(obj), obj))
    elif isinstance(obj, (list, tuple)):
        out.append((path, type(obj).__name__, (len(obj), tuple(id(e) for e in obj)), obj))
        for i, e in enumerate(obj):
            out.extend(snapshot_args(e, '%s[%d]' % (path, i)))
    elif isinstance(obj, np.ndarray):
        out.append((path, 'ndarray', hashlib.blake2b(obj.tobytes(), digest_size=12).hexdigest(), obj))
    return out


def compare_snapshot(snap, where, monitor='M-ARG'):
    bad = 0
    for path, kind, facts, ref in snap:
        if kind == 'tensor':
            now = tdigest(ref)
            if now != facts:
                names = ['bytes', 'shape', 'dtype', 'stride', '_version', 'data_ptr', 'requires_grad']
                diff = [n for n, a, b in zip(names, facts, now) if a != b]
                _log(monitor, where, '%s changed across the call: %s' % (path, ','.join(diff)))
                bad += 1
        elif kind in ('list', 'tuple'):
            now = (len(ref), tuple(id(e) for e in ref))
            if now != facts:
                _log(monitor, where, '%s (a %s) changed length or element identity' % (path, kind))
                bad += 1
        elif kind == 'attrs':
            now = {k: repr(v) for k, v in vars(ref).items() if not k.startswith('_') and k != 'training' and _plain(v)}
            if now != facts:
                ch = sorted(k for k in set(now) | set(facts) if now.get(k) != facts.get(k))
                _log(monitor, where, 'module attribute(s) %s changed across the call: %s' % (
                    ch, {k: (facts.get(k), now.get(k)) for k in ch}))
                bad += 1
        elif kind == 'ndarray':
            if hashlib.blake2b(ref.tobytes(), digest_size=12).hexdigest() != facts:
                _log(monitor, where, '%s (ndarray) changed across the call' % path)
                bad += 1
    return bad


def _first_float_dtype(obj):
    if isinstance(obj, torch.Tensor):
        return obj.dtype if obj.is_floating_point() and obj.dim() > 0 else None
    if isinstance(obj, (list, tuple)):
        for e in obj:
            d = _first_float_dtype(e)
            if d is not None:
                return d
    return None


def _out_tensors(obj, path='out'):
    if isinstance(obj, torch.Tensor):
        yield path, obj
    elif isinstance(obj, (list, tuple)):
        for i, e in enumerate(obj):
            yield from _out_tensors(e, '%s[%d]' % (path, i))


def _plain(v):
    if isinstance(v, (int, float, str, bool, type(None))):
        return True
    if isinstance(v, (list, tuple)):
        return all(_plain(e) for e in v)
    return False


def module_state(mod):
    st = []
    for n, b in list(mod.named_buffers()) + list(mod.named_parameters()):
        st.append(('self.' + n, 'tensor', tdigest(b), b))
    # plain configuration attributes (J, mode, o_dim, skip_hps, magbias ...): a call must not rewrite them
    attrs = {k: repr(v) for k, v in vars(mod).items() if not k.startswith('_') and k != 'training' and _plain(v)}
    st.append(('self.<attributes>', 'attrs', attrs, mod))
    return st


def torch_globals():
    """process-wide torch settings a call must leave as it found them"""
    return {'default_dtype': str(torch.get_default_dtype()), 'grad_enabled': torch.is_grad_enabled(),
            'num_threads': torch.get_num_threads(),
            'deterministic': torch.are_deterministic_algorithms_enabled(),
            # flush-to-zero / denormals-are-zero are CPU flags of the thread: probed with NumPy so that no
            # torch operator is issued from inside a monitored call
            'denormals_kept': bool(np.float32(1e-40) * np.float32(1.0) != 0.0),
            'rng': hashlib.blake2b(torch.get_rng_state().numpy().tobytes(), digest_size=8).hexdigest()}


CHECK_GLOBALS = True


def wrap_entry(orig, where, is_method=True):
    @functools.wraps(orig)
    def wrapper(*args, **kwargs):
        self = args[0] if is_method else None
        call_args = args[1:] if is_method else args
        snap = snapshot_args(list(call_args)) + snapshot_args(kwargs and list(kwargs.values()) or [], 'kw')
        state = module_state(self) if is_method else []
        in_dtype = _first_float_dtype(list(call_args))
        g0 = torch_globals() if CHECK_GLOBALS else None
        mon = None
        if ENABLE_DISPATCH:
            protect = [(p, r) for p, k, f, r in snap + state if k == 'tensor']
            mon = DispatchMonitor(protect=protect, call_dtype=in_dtype, label=where)
        ok = False
        try:
            if mon is not None:
                with mon:
                    out = orig(*args, **kwargs)
            else:
                out = orig(*args, **kwargs)
            ok = True
            return out
        finally:
            if g0 is not None:
                _count('M-GLOBAL')
                g1 = torch_globals()
                # the default dtype is excluded when another thread of the harness may legitimately be
                # constructing a module (serialised among themselves, not against calls)
                keys = [k for k in g0 if not (k == 'default_dtype' and threading.active_count() > 1)]
                ch = [k for k in keys if g0[k] != g1[k]]
                if ch:
                    _log('M-GLOBAL', where, 'process-wide torch state changed across the call: %s' % (
                        {k: (g0[k], g1[k]) for k in ch if k != 'rng'} or 'global RNG state consumed'))
            _count('M-ARG')
            compare_snapshot(snap, where, 'M-ARG')
            if is_method:
                _count('M-INV')
                compare_snapshot(state, where, 'M-INV')
            if mon is not None:
                _count('M-DISP')
                for v in mon.write_violations[:5]:
                    _log('M-DISP.write', where, v)
                for v in mon.precision_violations[:5]:
                    _log('M-DISP.precision', where, v)
                with _LOCK:
                    for k, v in mon.census.items():
                        CENSUS[k] = CENSUS.get(k, 0) + v
                    for k, v in mon.mutating_ops.items():
                        MUTATING[k] = MUTATING.get(k, 0) + v
                mon.keep = []
            if ok and in_dtype is not None:
                _count('M-SHAPE.dtype')
                for path, t in _out_tensors(out):
                    if t.is_floating_point() and t.dtype != in_dtype:
                        _log('M-SHAPE.dtype', where, '%s has dtype %s, input dtype %s' % (
                            path, t.dtype, in_dtype))
    wrapper.__wrapped_by_verif__ = True
    return wrapper


def public_classes():
    import pytorch_wavelets as pw
    from pytorch_wavelets.dwt.transform2d import SWTForward
    return [pw.DWTForward, pw.DWTInverse, pw.DWT1DForward, pw.DWT1DInverse, SWTForward,
            pw.DTCWTForward, pw.DTCWTInverse, pw.ScatLayer, pw.ScatLayerj2]


FUNC_ENTRIES = [('pytorch_wavelets.dwt.lowlevel', n) for n in
                ('afb2d', 'sfb2d', 'afb2d_nonsep', 'sfb2d_nonsep', 'afb2d_atrous')]


def rebind_everywhere(orig, new):
    """re-bind a module-level function in every module that imported it by name"""
    import sys
    n = 0
    for m in list(sys.modules.values()):
        d = getattr(m, '__dict__', None)
        if not d or not getattr(m, '__name__', '').startswith('pytorch_wavelets'):
            continue
        for k, v in list(d.items()):
            if v is orig:
                d[k] = new
                n += 1
    return n


class MonitoredCache(dict):
    """drop-in for dtcwt.coeffs.COEFF_CACHE: logs get/set with thread ids; arrays made read-only"""
    def __init__(self, *a):
        super().__init__(*a)
        self.events = []
        self.digests = {}

    @staticmethod
    def _dig(mat):
        """content digest of a cached entry, whatever container the loader chose"""
        h = hashlib.blake2b(digest_size=12)

        def walk(o):
            if isinstance(o, dict):
                for k in sorted(o, key=str):
                    h.update(str(k).encode())
                    walk(o[k])
            elif isinstance(o, (list, tuple)):
                for e in o:
                    walk(e)
            elif isinstance(o, np.ndarray):
                h.update(np.ascontiguousarray(o).tobytes())
            else:
                h.update(repr(o).encode())
        walk(mat)
        return h.hexdigest()

    def __getitem__(self, k):
        v = super().__getitem__(k)     # KeyError propagates: that is the loader's miss path
        d = self._dig(v)
        with _LOCK:
            self.events.append(('get', k, threading.current_thread().name))
            COUNTS['M-CACHE'] = COUNTS.get('M-CACHE', 0) + 1
            first = self.digests.setdefault(k, d)
        if first != d:
            _log('M-CACHE', 'COEFF_CACHE[%s]' % k, 'cached table content changed between reads')
        return v

    def __setitem__(self, k, v):
        for arr in (v.values() if isinstance(v, dict) else v if isinstance(v, (list, tuple)) else [v]):
            if isinstance(arr, np.ndarray):
                try:
                    arr.setflags(write=False)      # write trap: in-place edits raise at the fault
                except ValueError:
                    pass
        with _LOCK:
            self.events.append(('set', k, threading.current_thread().name))
        super().__setitem__(k, v)


def install(dispatch=True, functions=True):
    """idempotent; only acts when the guard variable is set"""
    global INSTALLED, ENABLE_DISPATCH
    if os.environ.get('PYTORCH_WAVELETS_VERIF') != '1':
        return False
    ENABLE_DISPATCH = dispatch
    if INSTALLED:
        return True
    import importlib
    for cls in public_classes():
        if not getattr(cls.forward, '__wrapped_by_verif__', False):
            cls.forward = wrap_entry(cls.forward, cls.__name__ + '.forward')
    if functions:
        for modname, fn in FUNC_ENTRIES:
            m = importlib.import_module(modname)
            orig = getattr(m, fn)
            if not getattr(orig, '__wrapped_by_verif__', False):
                rebind_everywhere(orig, wrap_entry(orig, fn, is_method=False))
    import pytorch_wavelets.dtcwt.coeffs as coeffs
    if not isinstance(coeffs.COEFF_CACHE, MonitoredCache):
        mc = MonitoredCache()
        for k, v in coeffs.COEFF_CACHE.items():
            mc[k] = v
        coeffs.COEFF_CACHE = mc
    INSTALLED = True
    return True
